"""C04 / C07 / C11 (authored content) / C13-free: edit histories on top of base maps.

A scenario = base map bytes + a history of editor operations (add triggers holding any supported
condition/action with authored arguments; upsert unit settings; add WAV entries; save+reload).
It is described ABSTRACTLY (plain dicts); from the description the harness builds
  * the real rich objects, driven through the library's public editors and RichChkIo/ChkIo,
  * the token line for the Lean driver (op `edit`), byte-compared with the real output,
  * the expectation for the oracles, which read the saved bytes with the independent reader
    (refchk, specification tables only).
"""
import dataclasses
import glob
import importlib
import logging
import os
import pkgutil
import sys
import typing
from decimal import Decimal

sys.path.insert(0, os.path.dirname(os.path.abspath(__file__)))
import refchk  # noqa: E402
from common import REPO, Outcome, Rng, err_class, hx, load_spec, run_driver, shared_io  # noqa: E402
from mapgen import MapGen, PRINTABLE  # noqa: E402

logging.disable(logging.CRITICAL)


# ------------------------------------------------------------------------------------- discovery
def rich_classes():
    """{(kind, id): (class, {arg: type})} from the rich model packages"""
    import richchk.model.richchk.trig.actions as A
    import richchk.model.richchk.trig.conditions as C

    out = {}
    for pkg, k, meth in ((A, "a", "action_id"), (C, "c", "condition_id")):
        for m in pkgutil.iter_modules(pkg.__path__):
            if m.ispkg:
                continue
            mod = importlib.import_module(pkg.__name__ + "." + m.name)
            for name in dir(mod):
                cls = getattr(mod, name)
                if isinstance(cls, type) and hasattr(cls, meth) and not getattr(cls, "__abstractmethods__", None) and cls.__module__ == mod.__name__:
                    hints = typing.get_type_hints(cls)
                    out[(k, getattr(cls, meth)().id)] = (cls, {a: t for a, t in hints.items() if a != "_flags"})
    return out


def tname(t):
    return getattr(t, "__name__", str(t))


# ------------------------------------------------------------------------------------- abstract values
class Obj(dict):
    """an authored object with identity (shared objects are the same Obj)"""
    _n = [0]

    def __init__(self, **kw):
        super().__init__(**kw)
        Obj._n[0] += 1
        self["uid"] = Obj._n[0]

    def __hash__(self):
        return self["uid"]

    def __eq__(self, o):
        return self is o


def rstr_tok(s):
    return ["null"] if s is None else ["t", hx(s)]


def bits_tok(bs):
    return "".join("1" if b else "0" for b in bs) or "-"


def opt_tok(i):
    return "-" if i is None else str(i)


def val_tokens(v):
    k = v["k"]
    if k == "num":
        return ["num", str(v["n"])]
    if k == "enum":
        return ["enum", str(v["id"])]
    if k == "loc":
        return ["loc", str(v["x1"]), str(v["y1"]), str(v["x2"]), str(v["y2"])] + rstr_tok(v["name"]) + [opt_tok(v["idx"]), bits_tok(v["el"]), str(v["uid"])]
    if k == "str":
        return ["str"] + rstr_tok(v["s"])
    if k == "text":
        return ["text", hx(v["s"])]
    if k == "sw":
        return ["sw"] + rstr_tok(v["name"]) + [opt_tok(v["idx"]), str(v["uid"])]
    if k == "cuwp":
        return ["cuwp", str(v["hp"]), str(v["sp"]), str(v["ep"]), str(v["res"]), str(v["hangar"]), bits_tok(v["flags"]), bits_tok(v["vs"]), bits_tok(v["vu"]),
                "1" if v["unk"] else "0", str(v["padding"]), opt_tok(v["idx"])]
    if k == "ai":
        return ["ai", hx(v["name"])]
    if k == "optnum":
        return ["optnum", opt_tok(v["n"])]
    raise ValueError(k)


def entry_tokens(e):
    if e["k"] == "raw":
        return ["raw", str(len(e["rec"]))] + [str(x) for x in e["rec"]]
    toks = ["rich", str(e["id"]), str(len(e["args"]))]
    for a, v in e["args"]:
        toks += [a] + val_tokens(v)
    return toks + [bits_tok(e["flags"])]


def trigger_tokens(t):
    toks = ["trig", str(len(t["players"]))] + [str(p) for p in t["players"]]
    toks += [str(len(t["conds"]))] + [x for e in t["conds"] for x in entry_tokens(e)]
    toks += [str(len(t["acts"]))] + [x for e in t["acts"] for x in entry_tokens(e)]
    return toks


def unit_tokens(u):
    toks = [str(u["unit"]), str(u["hp"][0]), str(u["hp"][1]), str(u["shield"]), str(u["armor"]), str(u["build"]), str(u["mineral"]), str(u["gas"])] + rstr_tok(u["name"])
    toks += [str(len(u["weapons"]))] + [str(x) for w in u["weapons"] for x in w] + ["1" if u["default"] else "0"]
    return toks


def edit_tokens(ed):
    if ed["op"] == "addtrigs":
        return ["addtrigs", str(len(ed["trigs"]))] + [x for t in ed["trigs"] for x in trigger_tokens(t)]
    if ed["op"] == "upsert":
        return ["upsert"] + unit_tokens(ed["unit"])
    if ed["op"] == "addwavs":
        return ["addwavs", str(len(ed["paths"]))] + [hx(p) for p in ed["paths"]]
    if ed["op"] == "setuprp":
        return ["setuprp", str(len(ed["cuwps"]))] + [x for c in ed["cuwps"] for x in val_tokens(c)[1:]]
    if ed["op"] == "setmrgn":
        return ["setmrgn", str(len(ed["locs"]))] + [x for l in ed["locs"] for x in val_tokens(l)[1:]]
    if ed["op"] == "reload":
        return ["reload"]
    raise ValueError(ed["op"])


# ------------------------------------------------------------------------------------- real objects
def s2py(b):
    return b.decode("latin1")


class Real:
    """abstract -> library objects (shared abstract objects give the same library object)"""

    def __init__(self, classes):
        self.classes = classes
        self.cache = {}

    def rstr(self, s):
        from richchk.model.richchk.str.rich_string import RichNullString, RichString

        return RichNullString() if s is None else RichString(_value=s2py(s))

    def val(self, v, typ):
        k = v["k"]
        if k == "num":
            return v["n"]
        if k == "optnum":
            return v["n"]
        if k == "text":
            return s2py(v["s"])
        if k == "str":
            return self.rstr(v["s"])
        if k == "enum":
            return next(m for m in typ if m.id == v["id"])
        if k == "ai":
            from richchk.model.richchk.trig.enums.ai_script import KnownAiScript, UnknownAiScript

            nm = s2py(v["name"])
            for m in KnownAiScript:
                if m.value.name == nm:
                    return m.value
            return UnknownAiScript(_name=nm, _description=nm)
        if v["uid"] in self.cache:
            return self.cache[v["uid"]]
        if k == "loc":
            from richchk.model.richchk.mrgn.rich_location import RichLocation

            el = v["el"]
            o = RichLocation(_left_x1=v["x1"], _top_y1=v["y1"], _right_x2=v["x2"], _bottom_y2=v["y2"], _custom_location_name=self.rstr(v["name"]), _index=v["idx"],
                             _low_elevation=el[0], _medium_elevation=el[1], _high_elevation=el[2], _low_air=el[3], _medium_air=el[4], _high_air=el[5])
        elif k == "sw":
            from richchk.model.richchk.swnm.rich_switch import RichSwitch

            o = RichSwitch(_custom_name=self.rstr(v["name"]), _index=v["idx"])
        elif k == "cuwp":
            from richchk.model.richchk.uprp.flags.valid_special_property_flags import ValidSpecialPropertyFlags
            from richchk.model.richchk.uprp.flags.valid_unit_property_flags import ValidUnitPropertyFlags
            from richchk.model.richchk.uprp.rich_cuwp_slot import RichCuwpSlot, _RichCuwpSlotFlagsData

            vs, vu, fl = v["vs"], v["vu"], v["flags"]
            fd = _RichCuwpSlotFlagsData(
                _valid_special_property_flags=ValidSpecialPropertyFlags(_cloak_valid=vs[0], _burrowed_valid=vs[1], _in_transit_valid=vs[2], _hallucinated_valid=vs[3], _invincible_valid=vs[4], _unknown_flag=vs[5]),
                _valid_unit_property_flags=ValidUnitPropertyFlags(_owner_play_valid=vu[0], _hp_valid=vu[1], _shields_valid=vu[2], _energy_valid=vu[3], _resource_amount_valid=vu[4], _hanger_amount_valid=vu[5], _unknown_flag=vu[6]),
                _unknown_flag=v["unk"], _padding=v["padding"])
            o = RichCuwpSlot(_hitpoints_percentage=v["hp"], _shieldpoints_percentage=v["sp"], _energypoints_percentage=v["ep"], _resource_amount=v["res"], _units_in_hangar=v["hangar"],
                             _cloaked=fl[0], _burrowed=fl[1], _building_in_transit=fl[2], _hallucinated=fl[3], _invincible=fl[4], _flags_data=fd, _index=v["idx"])
        else:
            raise ValueError(k)
        self.cache[v["uid"]] = o
        return o

    def entry(self, kind, e):
        if e["k"] == "raw":
            from richchk.model.chk.trig.decoded_trigger_action import DecodedTriggerAction
            from richchk.model.chk.trig.decoded_trigger_condition import DecodedTriggerCondition

            cls = DecodedTriggerAction if kind == "a" else DecodedTriggerCondition
            names = [f.name for f in dataclasses.fields(cls)]
            return cls(**dict(zip(names, e["rec"])))
        cls, hints = self.classes[(kind, e["id"])]
        kw = {a: self.val(v, hints.get(a)) for a, v in e["args"]}
        if kind == "a":
            from richchk.model.richchk.trig.actions.flags.trigger_action_flags import TriggerActionFlags as F
        else:
            from richchk.model.richchk.trig.conditions.flags.trigger_condition_flags import TriggerConditionFlags as F
        names = [f.name for f in dataclasses.fields(F)]
        kw["_flags"] = F(**dict(zip(names, e["flags"])))
        return cls(**kw)

    def trigger(self, t):
        from richchk.model.richchk.trig.player_id import PlayerId
        from richchk.model.richchk.trig.rich_trigger import RichTrigger

        return RichTrigger(_conditions=[self.entry("c", e) for e in t["conds"]], _actions=[self.entry("a", e) for e in t["acts"]],
                           _players={m for m in PlayerId if m.id in t["players"]})

    def unit(self, u):
        from richchk.model.richchk.unis.unit_id import UnitId
        from richchk.model.richchk.unis.unit_setting import UnitSetting
        from richchk.model.richchk.unis.weapon_id import WeaponId
        from richchk.model.richchk.unis.weapon_setting import WeaponSetting

        return UnitSetting(_unit_id=next(m for m in UnitId if m.id == u["unit"]), _hitpoints=Decimal(u["hp"][0]) / Decimal(u["hp"][1]), _shieldpoints=u["shield"], _armorpoints=u["armor"],
                           _build_time=u["build"], _mineral_cost=u["mineral"], _gas_cost=u["gas"], _custom_unit_name=self.rstr(u["name"]),
                           _weapons=[WeaponSetting(_weapon_id=next(m for m in WeaponId if m.id == w), _base_damage=b, _upgrade_damage=g) for w, b, g in u["weapons"]],
                           _use_default_unit_settings=u["default"])


def find_section(rich, cls):
    return next((s for s in rich.chk_sections if isinstance(s, cls)), None)


def real_run(data, history, classes):
    """load, apply the history with the public editors, save.  Returns (bytes|None, error class|None,
    authored real triggers in order)"""
    from richchk.editor.richchk.rich_chk_editor import RichChkEditor
    from richchk.editor.richchk.rich_trig_editor import RichTrigEditor
    from richchk.editor.richchk.rich_unis_editor import RichUnisEditor
    from richchk.editor.richchk.rich_unix_editor import RichUnixEditor
    from richchk.editor.richchk.rich_wav_editor import RichWavEditor
    from richchk.io.chk.chk_io import ChkIo
    from richchk.io.richchk.richchk_io import RichChkIo
    from richchk.model.richchk.trig.rich_trig_section import RichTrigSection
    from richchk.model.richchk.unis.rich_unis_section import RichUnisSection
    from richchk.model.richchk.unix.rich_unix_section import RichUnixSection
    from richchk.model.richchk.wav.rich_wav_section import RichWavSection

    real = Real(classes)
    authored = []
    try:
        rich = shared_io()[1].decode_chk(shared_io()[0].decode_chk_binary_data(data))
        for ed in history:
            if ed["op"] == "addtrigs":
                trig = find_section(rich, RichTrigSection)
                if trig is None:
                    raise ValueError("no TRIG")
                new = [real.trigger(t) for t in ed["trigs"]]
                authored += new
                rich = RichChkEditor().replace_chk_section(RichTrigEditor.add_triggers(new, trig), rich)
            elif ed["op"] == "upsert":
                sec = next((s for s in rich.chk_sections if isinstance(s, (RichUnisSection, RichUnixSection))), None)
                if sec is None:
                    raise ValueError("no UNIS")
                editor = RichUnisEditor() if isinstance(sec, RichUnisSection) else RichUnixEditor()
                if ed.get("batch"):
                    # the list form of the same operation (what the library's examples use)
                    rich = RichChkEditor().replace_chk_section(editor.upsert_all_unit_settings([real.unit(ed["unit"])], sec), rich)
                else:
                    rich = RichChkEditor().replace_chk_section(editor.upsert_unit_setting(real.unit(ed["unit"]), sec), rich)
            elif ed["op"] == "addwavs":
                sec = find_section(rich, RichWavSection)
                if sec is None:
                    raise ValueError("no WAV")
                rich = RichChkEditor().replace_chk_section(RichWavEditor().add_wav_files([s2py(p) for p in ed["paths"]], sec), rich)
            elif ed["op"] == "setuprp":
                from richchk.model.richchk.uprp.rich_uprp_section import RichUprpSection

                rich = RichChkEditor().replace_chk_section(RichUprpSection(_cuwp_slots=[real.val(c, None) for c in ed["cuwps"]]), rich)
            elif ed["op"] == "setmrgn":
                from richchk.model.richchk.mrgn.rich_mrgn_section import RichMrgnSection

                rich = RichChkEditor().replace_chk_section(RichMrgnSection(_locations=[real.val(l, None) for l in ed["locs"]]), rich)
            elif ed["op"] == "reload":
                rich = shared_io()[1].decode_chk(shared_io()[0].decode_chk_binary_data(shared_io()[0].encode_chk_to_bytes(shared_io()[1].encode_chk(rich))))
        out = shared_io()[0].encode_chk_to_bytes(shared_io()[1].encode_chk(rich))
    except Exception as ex:  # noqa: BLE001
        return None, err_class(ex), authored
    return out, None, authored


# ------------------------------------------------------------------------------------- authoring
class SkipEntry(Exception):
    pass


class Author:
    def __init__(self, rng, spec, classes, base):
        self.added_wavs = []
        self.all_fresh = {"cuwp": []}
        self.allow_exhaust = False
        self.rng = rng
        self.spec = spec
        self.classes = classes
        self.L = refchk.layouts_of(spec)
        self.act = {r["id"]: r for r in spec["actions"]}
        self.cond = {r["id"]: r for r in spec["conditions"]}
        self.widths = {"a": dict(self.L[b"TRIG"]["af"]), "c": dict(self.L[b"TRIG"]["cf"])}
        self.base = base
        self.view = refchk.game_view(base, spec)
        self.chunks = {n: p for n, _, p in reversed(refchk.split_chunks(base))}
        self.fresh = {"loc": [], "sw": [], "cuwp": []}
        self.new_texts = []
        self.mode = "single"   # at most one index-less object of each kind per save (order-free => byte-exact model)

    def text(self, new=None):
        rng = self.rng
        existing = [t for t in refchk.str_table_view(self.chunks[b"STR "], 2).values() if t is not None] if b"STR " in self.chunks else []
        existing = [t for t in existing if all(b < 0x80 for b in t)]
        r = rng.random()
        if (r < 0.35 and existing) and new is not True:
            return rng.choice(existing)
        if r < 0.55 and self.new_texts:
            return rng.choice(self.new_texts)      # a string authored earlier in this history (duplicate request)
        t = bytes(rng.choice(PRINTABLE) for _ in range(rng.choice([1, 2, 7, 20, 60])))
        self.new_texts.append(t)
        return t

    def rstr(self):
        return None if self.rng.random() < 0.15 else self.text()

    def existing_loc(self):
        slots = sorted(self.view["locs"])
        if not slots:
            return None
        s = self.rng.choice(slots)
        key = ("loc", s)
        if key in self._existing:
            return self._existing[key]
        recs = refchk.fields_of(self.L[b"MRGN"], self.chunks[b"MRGN"])["records"]
        r = recs[s - 1]
        name = refchk.resolve_string(self.chunks[b"STR "], 2, r["_string_id"]) if r["_string_id"] else None
        o = Obj(k="loc", x1=r["_left_x1"], y1=r["_top_y1"], x2=r["_right_x2"], y2=r["_bottom_y2"], name=name, idx=s, el=[not (r["_elevation_flags"] >> i) & 1 for i in range(6)])
        self._existing[key] = o
        return o

    _existing = {}

    def loc(self):
        rng = self.rng
        r = rng.random()
        if r < 0.5 or (self.mode == "single" and self.fresh["loc"] and r < 0.8):
            o = self.existing_loc()
            if o is not None:
                return o
        if self.fresh["loc"] and (self.mode == "single" or r < 0.8):
            return rng.choice(self.fresh["loc"])   # a new location shared among several entries / triggers
        if len(self.view["locs"]) + len(self.all_fresh.get("loc", [])) >= 255 and not self.allow_exhaust:
            return self.existing_loc()          # the location table is full: a new one cannot be placed
        o = Obj(k="loc", x1=rng.randrange(0, 8192), y1=rng.randrange(0, 8192), x2=rng.randrange(0, 8192), y2=rng.randrange(0, 8192), name=self.rstr(), idx=None,
                el=[rng.random() < 0.7 for _ in range(6)])
        self.all_fresh.setdefault("loc", []).append(o)
        self.fresh["loc"].append(o)
        return o

    def switch(self):
        rng = self.rng
        r = rng.random()
        if r < 0.55 or (self.mode == "single" and self.fresh["sw"] and r < 0.8):
            i = rng.randrange(0, 256)
            key = ("sw", i)
            if key not in self._existing:
                nm = None
                if b"SWNM" in self.chunks:
                    sid = refchk.fields_of(self.L[b"SWNM"], self.chunks[b"SWNM"])["_switch_string_ids"][i]
                    nm = refchk.resolve_string(self.chunks[b"STR "], 2, sid) if sid else None
                self._existing[key] = Obj(k="sw", name=nm, idx=i)
            return self._existing[key]
        if self.fresh["sw"] and (self.mode == "single" or r < 0.8):
            return rng.choice(self.fresh["sw"])
        o = Obj(k="sw", name=self.text(new=True), idx=None)   # a new named switch
        self.fresh["sw"].append(o)
        return o

    def _existing_cuwps(self):
        out = []
        if b"UPRP" in self.chunks:
            recs = refchk.fields_of(self.L[b"UPRP"], self.chunks[b"UPRP"])["records"]
            bits = lambda n, k: [bool((n >> i) & 1) for i in range(k)]  # noqa: E731
            for s in sorted(self.view["cuwps"]):
                rec = recs[s - 1]
                fl = bits(rec["_flags"], 6)
                out.append(dict(k="cuwp", hp=rec["_hitpoints_percentage"], sp=rec["_shieldpoints_percentage"], ep=rec["_energypoints_percentage"], res=rec["_resource_amount"],
                                hangar=rec["_units_in_hangar"], flags=fl[:5], unk=fl[5], vs=bits(rec["_valid_special_properties_flags"], 6), vu=bits(rec["_valid_unit_properties_flags"], 7),
                                padding=rec["_padding"], idx=s))
        return out

    def cuwp(self):
        rng = self.rng
        r = rng.random()
        slots = sorted(self.view["cuwps"])
        if slots and (r < 0.4 or (self.mode == "single" and self.fresh["cuwp"] and r < 0.7)):
            s = rng.choice(slots)
            key = ("cuwp", s)
            if key not in self._existing:
                rec = refchk.fields_of(self.L[b"UPRP"], self.chunks[b"UPRP"])["records"][s - 1]
                bits = lambda n, k: [bool((n >> i) & 1) for i in range(k)]  # noqa: E731
                fl = bits(rec["_flags"], 6)
                self._existing[key] = Obj(k="cuwp", hp=rec["_hitpoints_percentage"], sp=rec["_shieldpoints_percentage"], ep=rec["_energypoints_percentage"], res=rec["_resource_amount"],
                                          hangar=rec["_units_in_hangar"], flags=fl[:5], unk=fl[5], vs=bits(rec["_valid_special_properties_flags"], 6), vu=bits(rec["_valid_unit_properties_flags"], 7),
                                          padding=rec["_padding"], idx=s)
            return self._existing[key]
        if self.fresh["cuwp"] and (self.mode == "single" or r < 0.8):
            return rng.choice(self.fresh["cuwp"])
        if len(slots) + len(self.all_fresh["cuwp"]) >= 64 and not self.allow_exhaust:
            return self.cuwp() if slots else None
        pool = list(self._existing_cuwps()) + self.all_fresh["cuwp"]
        if pool and rng.random() < 0.35:
            # a set that differs from an existing / earlier authored one in exactly one field
            src = rng.choice(pool)
            o = Obj(**{k: (list(v) if isinstance(v, list) else v) for k, v in src.items() if k != "uid"})
            o["idx"] = None
            f = rng.choice(["hp", "sp", "ep", "res", "hangar", "flags", "vs", "vu"])
            if f in ("flags", "vs", "vu"):
                j = rng.randrange(5)
                o[f][j] = not o[f][j]
            else:
                o[f] = o[f] + 1 if o[f] < 100 else o[f] - 1
            self.fresh["cuwp"].append(o)
            self.all_fresh["cuwp"].append(o)
            return o
        o = Obj(k="cuwp", hp=rng.randrange(0, 101), sp=rng.randrange(0, 101), ep=rng.randrange(0, 101), res=rng.choice([0, 1, 5000, 0xFFFFFFFF]), hangar=rng.choice([0, 1, 8, 0xFFFF]),
                flags=[rng.random() < 0.4 for _ in range(5)], unk=False, vs=[rng.random() < 0.6 for _ in range(5)] + [False], vu=[rng.random() < 0.6 for _ in range(6)] + [False],
                padding=0, idx=None)
        if not any([o["hp"], o["sp"], o["ep"], o["res"], o["hangar"]] + o["flags"] + o["vs"] + o["vu"]):
            o["hp"] = 50
        self.fresh["cuwp"].append(o)
        self.all_fresh["cuwp"].append(o)
        return o

    def arg(self, kind, tid, a, typ):
        rng = self.rng
        tn = tname(typ)
        field = dict((x, f) for x, f in (self.act if kind == "a" else self.cond)[tid]["args"])[a]
        top = (1 << (8 * self.widths[kind][field])) - 1
        if tn == "RichLocation":
            return self.loc()
        if tn == "RichSwitch":
            return self.switch()
        if tn == "RichCuwpSlot":
            return self.cuwp()
        if tn == "RichString":
            return Obj(k="str", s=self.rstr())
        if tn == "str":
            # PlayWav's path: the library resolves it against the string table, so it must name a WAV the map
            # already lists or one added earlier in this history (StarCraftWavIo adds the entry first)
            known = [bytes.fromhex(t) for t in self.view["wavs"].values() if t and t != "?dangling"] + self.added_wavs
            if not known:
                raise SkipEntry()
            return Obj(k="text", s=rng.choice(known))
        if tn == "AiScript":
            return Obj(k="ai", name=rng.choice([b"JYDg", b"EnBk", b"+Vi3", b"ZzZ1", b"Qrs9"]))
        if tn == "int":
            return Obj(k="num", n=rng.choice([0, 1, top - 1, top, rng.randrange(0, top + 1)]))
        if tn.startswith("Optional") or "Optional" in str(typ):
            return Obj(k="optnum", n=rng.choice([0, 1, 1500, top]))
        if isinstance(typ, type) and hasattr(typ, "__members__"):
            ids = sorted(m.id for m in typ)
            return Obj(k="enum", id=rng.choice([ids[0], ids[-1], rng.choice(ids)]), enum=tn)
        raise ValueError("unhandled argument type %s" % tn)

    def entry(self, kind, tid=None):
        rng = self.rng
        table = self.act if kind == "a" else self.cond
        while True:
            t = tid if tid is not None else rng.choice(sorted(table))
            cls, hints = self.classes[(kind, t)]
            try:
                args = [(a, self.arg(kind, t, a, ty)) for a, ty in hints.items()]
            except SkipEntry:
                if tid is not None:
                    raise
                continue
            tid = t
            break
        return {"k": "rich", "id": tid, "args": args, "flags": [rng.random() < 0.25 for _ in range(5)]}

    def raw_entry(self, kind):
        rng = self.rng
        names = [f for f, _ in self.L[b"TRIG"]["af" if kind == "a" else "cf"]]
        w = self.widths[kind]
        rec = [rng.randrange(0, 1 << (8 * w[f])) for f in names]
        tf = "_action_id" if kind == "a" else "_condition_id"
        rec[names.index(tf)] = rng.choice([7, 47, 59, 200] if kind == "a" else [13, 30, 200])
        return {"k": "raw", "rec": rec}

    def trigger(self, nc=None, na=None, raw_p=0.1):
        rng = self.rng
        nc = rng.choice([0, 1, 2, 5, 16]) if nc is None else nc
        na = rng.choice([1, 2, 4, 9, 64]) if na is None else na
        conds = [self.raw_entry("c") if rng.random() < raw_p else self.entry("c") for _ in range(nc)]
        acts = [self.raw_entry("a") if rng.random() < raw_p else self.entry("a") for _ in range(na)]
        players = sorted(rng.sample(range(27), rng.choice([0, 1, 3, 27])))
        return {"conds": conds, "acts": acts, "players": players}

    def unit(self, nweap):
        rng = self.rng
        from richchk.model.richchk.unis.unit_id import UnitId
        from richchk.model.richchk.unis.unit_to_weapon_lookup import get_weapons_for_unit

        u = rng.choice([m for m in UnitId if m.id < 228])   # the 228 units that have settings (ids above are trigger wildcards)
        ws = [(w.id, rng.choice([0, 1, 65535, rng.randrange(65536)]), rng.choice([0, 3, 65535])) for w in get_weapons_for_unit(u) if w.id < nweap]
        den = rng.choice([1, 2, 4, 10, 256, 1000])
        num = rng.choice([0, 1, den, 3 * den + 1, rng.randrange(0, 9999 * den + 1), 8388607 * den])
        return {"unit": u.id, "hp": (num, den), "shield": rng.choice([0, 1, 65535]), "armor": rng.choice([0, 3, 255]), "build": rng.choice([0, 1, 65535]), "mineral": rng.choice([0, 50, 65535]),
                "gas": rng.choice([0, 25, 65535]), "name": self.rstr(), "weapons": ws, "default": rng.random() < 0.3}


def gen_history(author, rng, mode, have):
    """mode 'single': byte-exact model correspondence possible; 'multi': several new objects per save"""
    author.mode = mode
    hist = []
    nseg = rng.choice([1, 1, 2, 3])
    for seg in range(nseg):
        author.fresh = {"loc": [], "sw": [], "cuwp": []}
        for _ in range(rng.choice([1, 2, 3])):
            r = rng.random()
            if r < 0.6:
                hist.append({"op": "addtrigs", "trigs": [author.trigger() for _ in range(rng.choice([1, 1, 2, 3]))]})
            elif r < 0.8 and have["unis"]:
                hist.append({"op": "upsert", "unit": author.unit(have["unis"])})
            elif have["wav"]:
                paths = [t for t in (author.text() for _ in range(rng.choice([1, 2, 3]))) if t]
                if paths:
                    hist.append({"op": "addwavs", "paths": paths})
                    author.added_wavs += paths
        if seg + 1 < nseg:
            hist.append({"op": "reload"})
    if not any(e["op"] == "addtrigs" for e in hist):
        hist.append({"op": "addtrigs", "trigs": [author.trigger()]})
    return hist


# ------------------------------------------------------------------------------------- expectations
_UW = {}


def unit_weapons():
    if not _UW:
        from richchk.model.richchk.unis.unit_id import UnitId
        from richchk.model.richchk.unis.unit_to_weapon_lookup import get_weapons_for_unit

        for u in UnitId:
            _UW[u.id] = [w.id for w in get_weapons_for_unit(u)]
    return _UW


def hp_raw(hp):
    return hp[0] * 256 // hp[1]


def expected_entry(kind, e, spec, rf, widths):
    """the independent reader's view (refchk.game_view.entry) an authored entry must have; switch
    slots of index-less switches are left open (None) and checked separately"""
    if e["k"] == "raw":
        names = None
        return ("raw", e["rec"])
    m = rf[kind][e["id"]]       # field -> arg
    out = {"type": e["id"], "flags": sum(1 << i for i, b in enumerate(e["flags"]) if b) & 31, "mask": 0}
    args = dict(e["args"])
    for f, a in m.items():
        v = args[a]
        k = v["k"]
        if k == "loc":
            out[a] = ("loc", (v["x1"], v["y1"], v["x2"], v["y2"], v["name"].hex() if v["name"] is not None else None, sum(1 << i for i, b in enumerate(v["el"]) if not b) & 63))
        elif k in ("str", "text"):
            out[a] = ("str", v["s"].hex() if v["s"] is not None else None)
        elif k == "sw":
            out[a] = ("switch", v["idx"], v["name"].hex() if v["name"] else None)
        elif k == "cuwp":
            b = lambda bs: sum(1 << i for i, x in enumerate(bs) if x)  # noqa: E731
            out[a] = ("cuwp", (b(v["vs"]) & 31, b(v["vu"]) & 63, v["hp"], v["sp"], v["ep"], v["res"], v["hangar"], b(v["flags"]) & 31))
        elif k == "ai":
            out[a] = int.from_bytes(v["name"], "little")
        elif k == "enum":
            out[a] = v["id"]
        elif k == "optnum":
            out[a] = v["n"]
        else:
            out[a] = v["n"]
    return ("rich", out)


def compare_entry(exp, got):
    """got = refchk.game_view entry.  Returns None or a description of the difference."""
    if exp[0] == "raw":
        if got[0] != "raw" or [v for _, v in sorted(got[1])] is None:
            return "raw entry became %s" % got[0]
        return None
    if got[0] != "rich":
        return "rich entry read back as raw"
    g = dict(got[1])
    for k, v in exp[1].items():
        gv = g.get(k)
        if isinstance(v, tuple) and v[0] == "switch":
            want_idx, want_name = v[1], v[2]
            try:
                gk, gi, gn = eval(gv)  # noqa: S307 - repr of a tuple written by refchk
            except Exception:  # noqa: BLE001
                return "%s: unreadable %r" % (k, gv)
            if want_idx is not None and gi != want_idx:
                return "%s: switch slot %r, authored %r" % (k, gi, want_idx)
            if want_name is not None and gn != want_name:
                return "%s: switch name %r, authored %r" % (k, gn, want_name)
            continue
        if gv != repr(v):
            return "%s: file holds %s, authored %s" % (k, gv, repr(v))
    return None


# ------------------------------------------------------------------------------------- oracles
def sections_of(data):
    return [(n, p) for n, _, p in refchk.split_chunks(data)]


def check_c04(sc, out_bytes, spec, rf, widths, out, base_info):
    view = refchk.game_view(out_bytes, spec)
    # a hand-built unit-property table reaches the file: every set that carries an in-range slot number of its own
    # is stored in that slot (whatever sets later edits add)
    last_uprp = next((ed for ed in reversed(sc["history"]) if ed["op"] == "setuprp"), None)
    has_uprp = any(n == b"UPRP" for n, _, _ in refchk.split_chunks(sc["base"]))     # (replacing a section the map lacks is a no-op)
    if last_uprp is not None and has_uprp and not sc["kind"].startswith("degenerate"):
        b = lambda bs: sum(1 << i for i, x in enumerate(bs) if x)  # noqa: E731
        by_idx = {}
        for c in last_uprp["cuwps"]:
            by_idx.setdefault(c["idx"], []).append(c)
        for idx, cs in sorted(by_idx.items(), key=lambda kv: (kv[0] is None, kv[0])):
            if idx is None or not 1 <= idx <= 64 or len(cs) != 1:
                continue
            c = cs[0]
            want = (b(c["vs"]) & 31, b(c["vu"]) & 63, c["hp"], c["sp"], c["ep"], c["res"], c["hangar"], b(c["flags"]) & 31)
            if any(want) and view["cuwps"].get(idx) != want:
                out.violations.append(dict(base_info, oracle="a unit-property set placed in the table with a slot number of its own is stored in that slot", key=None, slot=idx,
                                           authored=want, file=view["cuwps"].get(idx)))
                break
    trigs = [t for ed in sc["history"] if ed["op"] == "addtrigs" for t in ed["trigs"]]
    got = view["triggers"][-len(trigs):] if trigs else []
    if len(view["triggers"]) < len(trigs):
        out.violations.append(dict(base_info, oracle="every authored trigger is in the saved file", key=None, got=len(view["triggers"]), authored=len(trigs)))
        return
    raw_t = []
    for n, p in sections_of(out_bytes):
        if n == b"TRIG":
            raw_t += refchk.fields_of(refchk.layouts_of(spec)[b"TRIG"], p)["triggers"]
    raw_t = raw_t[-len(trigs):] if trigs else []
    new_switch_slots = {}
    new_loc_slots = {}
    author_tables = {"a": {r["id"]: r for r in spec["actions"]}, "c": {r["id"]: r for r in spec["conditions"]}}
    for ti, (t, g, rt) in enumerate(zip(trigs, got, raw_t)):
        if g["players"] != [i in t["players"] for i in range(27)]:
            out.violations.append(dict(base_info, oracle="authored trigger runs for exactly the authored players", key=None, trigger=ti, got=g["players"], authored=t["players"]))
        for kind, part, idf in (("c", "conds", "_condition_id"), ("a", "acts", "_action_id")):
            recs = [r for r in rt[part]]
            used = len(t[part])
            if any(r[idf] != 0 for r in recs[used:]) and all(e["k"] != "raw" or True for e in t[part]):
                out.violations.append(dict(base_info, oracle="entries after the authored ones are empty", key=None, trigger=ti, part=part))
            for k, e in enumerate(t[part]):
                if e["k"] == "raw":
                    names = [f for f, _ in refchk.layouts_of(spec)[b"TRIG"]["af" if kind == "a" else "cf"]]
                    if [recs[k][f] for f in names] != e["rec"]:
                        out.violations.append(dict(base_info, oracle="a raw (undecoded) entry is written verbatim", key=None, trigger=ti, part=part, entry=k))
                    continue
                # read this one record with the independent reader's resolver: reuse game_view on position k
                # (game_view stops at the first empty entry; authored entries are never empty)
                if k >= len(g[part]):
                    out.violations.append(dict(base_info, oracle="every authored entry is in the saved trigger", key=None, trigger=ti, part=part, entry=k, type=e["id"]))
                    break
                gd = dict(g[part][k][1]) if g[part][k][0] == "rich" else {}
                srow = (author_tables["a"] if kind == "a" else author_tables["c"]).get(e["id"])
                if srow:
                    fmap = dict(srow["args"])
                    for a, v in e["args"]:
                        if v["k"] == "loc" and v["idx"] is None and a in fmap:
                            new_loc_slots.setdefault(v["uid"], set()).add(recs[k][fmap[a]])
                for a, v in e["args"]:
                    if v["k"] == "sw" and v["idx"] is None and a in gd:
                        try:
                            # index-less switches with the same (non-empty) name ARE the same switch for the library
                            new_switch_slots.setdefault(("name", v["name"]) if v["name"] else ("obj", v["uid"]), set()).add(eval(gd[a])[1])  # noqa: S307
                        except Exception:  # noqa: BLE001
                            pass
                d = compare_entry(expected_entry(kind, e, spec, rf, widths), g[part][k])
                if d:
                    out.violations.append(dict(base_info, oracle="the saved bytes hold the authored value in the field the format assigns to it, references resolving to the authored object",
                                               key=None, trigger=ti, part=part, entry=k, type=e["id"], diff=d))
    # new switches: one slot each, distinct objects in distinct slots, never a slot the base map names
    base_named = refchk.game_view(sc["base_out"], spec)["switches"]
    if not any(ed["op"] == "reload" for ed in sc["history"]):
        taken = {}
        for uid, slots in new_switch_slots.items():
            if len(slots) != 1:
                out.violations.append(dict(base_info, oracle="every reference to one authored switch resolves to one slot", key=None, slots=sorted(slots)))
                continue
            sl = next(iter(slots))
            if sl in base_named:
                out.violations.append(dict(base_info, oracle="a new switch is not given a slot the map already names", key=None, slot=sl, base_name=base_named[sl]))
            if sl in taken:
                out.violations.append(dict(base_info, oracle="distinct authored switches get distinct slots", key=None, slot=sl))
            taken[sl] = uid
        for uid, slots in new_loc_slots.items():
            if len(slots) != 1:
                out.violations.append(dict(base_info, oracle="every reference to one authored location resolves to one slot", key=None, slots=sorted(slots)))
    # unit settings
    L = refchk.layouts_of(spec)
    secs = dict((n, p) for n, p in reversed(sections_of(out_bytes)))
    last = {}
    for ed in sc["history"]:
        if ed["op"] == "upsert":
            last[ed["unit"]["unit"]] = ed["unit"]
    first_units = next((n for n, _ in sections_of(out_bytes) if n in (b"UNIS", b"UNIx")), None)   # the editors work on the first one
    for nm in (first_units,):
        if nm is not None and last:
            u = refchk.fields_of(L[nm], secs[nm])
            for uid, us in last.items():
                exp = {"_unit_default_settings_flags": 1 if us["default"] else 0, "_unit_hitpoints": hp_raw(us["hp"]), "_unit_shieldpoints": us["shield"], "_unit_armorpoints": us["armor"],
                       "_unit_build_times": us["build"], "_unit_mineral_costs": us["mineral"], "_unit_gas_costs": us["gas"]}
                for f, v in exp.items():
                    if f in u and u[f][uid] != v:
                        out.violations.append(dict(base_info, oracle="authored unit setting is in the field the format assigns to it", key=None, unit=uid, field=f, got=u[f][uid], authored=v))
                sid = u["_unit_string_ids"][uid]
                txt = refchk.resolve_string(secs[b"STR "], 2, sid) if sid else None
                if txt != us["name"]:
                    out.violations.append(dict(base_info, oracle="authored unit name resolves to the authored text", key=None, unit=uid, got=repr(txt), authored=repr(us["name"])))
                for w, b, g2 in us["weapons"]:
                    if (u["_unit_base_weapon_damages"][w], u["_unit_upgrade_weapon_damages"][w]) != (b, g2):
                        # a later upsert of another unit carrying the same weapon may legitimately overwrite it
                        later = [x for x in last.values() if x is not us and any(ww == w for ww, _, _ in x["weapons"])]
                        if not later:
                            sharers = [x for x, ws in unit_weapons().items() if w in ws and x != uid]
                            out.violations.append(dict(base_info, oracle="authored weapon damage is in the weapon's slot", key="shared-weapon-overwritten-by-other-unit" if sharers else None, unit=uid, shared_with=sharers[:6], weapon=w, got=(u["_unit_base_weapon_damages"][w], u["_unit_upgrade_weapon_damages"][w]), authored=(b, g2)))
    # wav paths
    paths = [p for ed in sc["history"] if ed["op"] == "addwavs" for p in ed["paths"]]
    if paths and b"WAV " in secs:
        wv = [bytes.fromhex(t) if t and t != "?dangling" else None for t in view["wavs"].values()]
        bw = [bytes.fromhex(t) if t and t != "?dangling" else None for t in refchk.game_view(sc["base_out"], spec)["wavs"].values()]
        for p in set(paths):
            if wv.count(p) != max(1, bw.count(p)):
                out.violations.append(dict(base_info, oracle="each added WAV path is in the WAV table exactly once (a path the table already lists is not added again)", key=None, path=repr(p), count=wv.count(p), before=bw.count(p)))


def check_c07(sc, base_out, out_bytes, spec, out, base_info):
    """base_out = the unedited map saved by the same code; out_bytes = edited + saved"""
    L = refchk.layouts_of(spec)
    va, vb = refchk.game_view(base_out, spec), refchk.game_view(out_bytes, spec)
    sa, sb = sections_of(base_out), sections_of(out_bytes)
    ops = {e["op"] for e in sc["history"]}
    kinds = set()
    for ed in sc["history"]:
        if ed["op"] == "addtrigs":
            for t in ed["trigs"]:
                for e in t["conds"] + t["acts"]:
                    if e["k"] == "rich":
                        for _, v in e["args"]:
                            if v["k"] in ("loc", "sw", "cuwp") and v["idx"] is None:
                                kinds.add(v["k"])
                            # an object carrying a slot number the base map leaves free is an addition too
                            if v["k"] == "loc" and v["idx"] is not None and v["idx"] not in va["locs"]:
                                kinds.add("loc")
                            if v["k"] == "cuwp" and v["idx"] is not None and v["idx"] not in va["cuwps"]:
                                kinds.add("cuwp")
                            if v["k"] == "sw" and v.get("name"):
                                kinds.add("sw")
        elif ed["op"] == "setuprp" and any(c["idx"] not in va["cuwps"] for c in ed["cuwps"]):
            kinds.add("cuwp")
        elif ed["op"] == "setmrgn" and any(l["idx"] not in va["locs"] for l in ed["locs"]):
            kinds.add("loc")

    def fail(what, **kw):
        out.violations.append(dict(base_info, oracle="edits leave everything that already exists untouched", key=None, diff=what, **kw))

    # strings: every pre-existing id keeps its text
    pa = dict(sa).get(b"STR ")
    pb = dict(sb).get(b"STR ")
    if pa is not None and pb is not None:
        ta, tb = refchk.str_table_view(pa, 2), refchk.str_table_view(pb, 2)
        for i, t in ta.items():
            if tb.get(i) != t:
                fail("string id %d: %r -> %r" % (i, t, tb.get(i)))
                break
    for k in ("locs", "cuwps", "switches", "wavs"):
        for slot, content in va[k].items():
            if vb[k].get(slot) != content:
                fail("%s slot %r: %r -> %r" % (k, slot, content, vb[k].get(slot)))
                break
    # triggers: byte-identical prefix, in place
    for i, (n, p) in enumerate(sa):
        if i >= len(sb) or sb[i][0] != n:
            fail("section %d %r moved or vanished" % (i, n))
            continue
        q = sb[i][1]
        if n == b"TRIG":
            if q[: len(p)] != p:
                fail("pre-existing triggers changed (first difference at TRIG offset %d)" % next((j for j in range(min(len(p), len(q))) if p[j] != q[j]), min(len(p), len(q))))
            if "addtrigs" not in ops and q != p:
                fail("TRIG changed without a trigger edit")
        elif n == b"STR ":
            pass
        elif n == b"MRGN":
            if "loc" not in kinds and q != p:
                fail("MRGN changed although no location was added")
        elif n in (b"UPRP", b"UPUS"):
            if "cuwp" not in kinds and q != p:
                fail("%s changed although no unit-property set was added" % n.decode())
        elif n == b"SWNM":
            if "sw" not in kinds and q != p:
                fail("SWNM changed although no switch was named or added")
        elif n == b"WAV ":
            if "addwavs" not in ops and q != p:
                fail("WAV changed although no WAV was added")
        elif n in (b"UNIS", b"UNIx"):
            if "upsert" not in ops and q != p:
                fail("%s changed although no unit setting was upserted" % n.decode())
            elif "upsert" in ops:
                ua, ub = refchk.fields_of(L[n], p), refchk.fields_of(L[n], q)
                touched = {e["unit"]["unit"] for e in sc["history"] if e["op"] == "upsert"}
                tw = {w for e in sc["history"] if e["op"] == "upsert" for w, _, _ in e["unit"]["weapons"]}
                for f in ua:
                    for j, (x, y) in enumerate(zip(ua[f], ub[f])):
                        if x != y and not ((("weapon" in f) and j in tw) or (("weapon" not in f) and j in touched)):
                            fail("%s %s[%d]: %r -> %r (not an edited unit/weapon)" % (n.decode(), f, j, x, y))
                            break
        elif q != p:
            fail("section %r changed although no edit concerns it" % n)


# ------------------------------------------------------------------------------------- run
def base_maps(rng, spec, tier):
    gen = MapGen(rng, spec)
    maps = []
    for p in sorted(glob.glob(os.path.join(REPO, "test", "resources", "*.chk"))):
        maps.append(("fixture:" + os.path.basename(p), open(p, "rb").read()))
    for i in range({"quick": 6, "thorough": 40}[tier]):
        data, _ = gen.gen("editor" if i % 2 == 0 else "valid", [None, None, "mrgn64", "uprp-prefilled"][i % 4] if i % 2 == 0 else None)
        maps.append(("gen:%d" % i, data))
    data, _ = gen.gen("editor", "mrgn-full")
    maps.append(("gen:mrgn-full", data))
    data, _ = gen.gen("editor", "no-anywhere")      # a (consistent) map whose location table has no entry 64 ("Anywhere")
    maps.append(("gen:no-anywhere", data))
    # unit-property slots that hold VALUES ONLY (percentages left at 100 with nothing ticked; a resource amount alone):
    # they are stored sets like any other — a later new set must not be given their slot.  Built from a private random
    # stream so that adding this map does not move the draws of the others.
    g2 = MapGen(Rng(4242), spec)
    g2.force_quiet = True
    d2, _ = g2.gen("editor")
    L = refchk.layouts_of(spec)
    cs = [(n, p) for n, _, p in refchk.split_chunks(d2)]
    if b"UPRP" in dict(cs) and b"UPUS" in dict(cs):
        up = refchk.fields_of(L[b"UPRP"], dict(cs)[b"UPRP"])
        free = [i for i, r in enumerate(up["records"]) if not any(r.values())]
        if len(free) >= 4:
            up["records"][free[0]].update(_hitpoints_percentage=100, _shieldpoints_percentage=100, _energypoints_percentage=100)
            up["records"][free[1]].update(_resource_amount=5000)
            upus = bytearray(dict(cs)[b"UPUS"])
            upus[free[0]] = upus[free[1]] = 1
            repl = {b"UPRP": refchk.build(L[b"UPRP"], up), b"UPUS": bytes(upus)}
            maps.append(("gen:uprp-values-only", refchk.join_chunks([(n, repl.get(n, p)) for n, p in cs])))
    return maps


def special_histories(author, rng, have=None):
    have = have or {"unis": 0, "wav": False}
    return _special_histories(author, rng, have)


def _special_histories(author, rng, have):
    """targeted normal-looking histories: (what, history, mode, may_raise)"""
    out = []
    # many new named switches in one save
    t = {"conds": [], "acts": [], "players": [0]}
    for i in range(rng.choice([6, 12])):
        e = author.entry("a", 13)
        sw = Obj(k="sw", name=b"sw-%d-%d" % (i, rng.randrange(1000)), idx=None)
        e["args"] = [(a, (sw if v["k"] == "sw" else v)) for a, v in e["args"]]
        t["acts"].append(e)
    out.append(("many new switches", [{"op": "addtrigs", "trigs": [t]}], "multi", False))
    # equal unit-property sets carrying DIFFERENT free slot numbers (sets taken from another map): every
    # reference must end on a slot that holds the set, or the save raises
    used_slots = {c["idx"] for c in author._existing_cuwps()}
    free_slots = [i for i in range(1, 65) if i not in used_slots]
    if len(free_slots) >= 3:
        acts = []
        for k in free_slots[1:3]:
            cu = Obj(k="cuwp", hp=61, sp=62, ep=63, res=6400, hangar=0, flags=[False] * 5, unk=False, vs=[True] * 5 + [False], vu=[True] * 6 + [False], padding=0, idx=k)
            e = author.entry("a", 11)
            e["args"] = [(a, (cu if v["k"] == "cuwp" else v)) for a, v in e["args"]]
            acts.append(e)
        out.append(("equal unit-property sets carrying different free slot numbers", [{"op": "addtrigs", "trigs": [{"conds": [], "acts": acts, "players": [3]}]}], "multi", True))
    # a set that carries the LOWEST free slot number (pinned by the author, or taken over from another map) together
    # with a different, index-less set in the same save: two slots, each holding its own values
    if len(free_slots) >= 2:
        acts = []
        for idx, hp in ((free_slots[0], 41), (None, 42)):
            cu = Obj(k="cuwp", hp=hp, sp=100, ep=100, res=0, hangar=0, flags=[False] * 5, unk=False, vs=[True] * 5 + [False], vu=[True] * 6 + [False], padding=0, idx=idx)
            e = author.entry("a", 11)
            e["args"] = [(a, (cu if v["k"] == "cuwp" else v)) for a, v in e["args"]]
            acts.append(e)
        out.append(("a set carrying the lowest free slot number next to a new index-less set", [{"op": "addtrigs", "trigs": [{"conds": [], "acts": acts, "players": [2]}]}], "single", False))
        out.append(("a new index-less set next to a set carrying the lowest free slot number", [{"op": "addtrigs", "trigs": [{"conds": [], "acts": acts[::-1], "players": [2]}]}], "single", False))
    # one new location and one new unnamed switch shared by triggers added in separate editor calls, with another
    # section replaced in between: still ONE location slot and ONE switch number
    shared_loc = Obj(k="loc", x1=96, y1=128, x2=320, y2=352, name=b"shared area", idx=None, el=[True] * 6)
    shared_sw = Obj(k="sw", name=None, idx=None)

    def use_shared(tag):
        acts = []
        e = author.entry("a", 28)      # minimap ping at a location
        e["args"] = [(a, (shared_loc if v["k"] == "loc" else v)) for a, v in e["args"]]
        acts.append(e)
        e = author.entry("a", 13)      # set switch
        e["args"] = [(a, (shared_sw if v["k"] == "sw" else v)) for a, v in e["args"]]
        acts.append(e)
        return {"conds": [], "acts": acts, "players": [tag]}
    between = []
    if have["unis"]:
        between.append({"op": "upsert", "unit": author.unit(have["unis"])})
    if have["wav"]:
        between.append({"op": "addwavs", "paths": [b"staredit\\wav\\between.wav"]})
    out.append(("objects shared by triggers added in separate calls", [{"op": "addtrigs", "trigs": [use_shared(1)]}] + between + [{"op": "addtrigs", "trigs": [use_shared(2)]}], "single", len(author.view["locs"]) >= 255))
    # a new location while all 255 slots are taken: the save raises (never a reference to "no location")
    if len(author.view["locs"]) >= 255:
        nl = Obj(k="loc", x1=8, y1=8, x2=72, y2=72, name=b"one too many", idx=None, el=[True] * 6)
        e = author.entry("a", 10)
        e["args"] = [(a, (nl if v["k"] == "loc" else v)) for a, v in e["args"]]
        out.append(("a new location on a full location table (in an action)", [{"op": "addtrigs", "trigs": [{"conds": [], "acts": [e], "players": [6]}]}], "single", True))
    # a switch the map NAMES, referred to by its number alone: the name stays
    named_slots = sorted(author.view["switches"])
    if named_slots:
        k = rng.choice(named_slots)
        e = author.entry("a", 13)
        byno = Obj(k="sw", name=None, idx=k)
        e["args"] = [(a, (byno if v["k"] == "sw" else v)) for a, v in e["args"]]
        out.append(("a named switch referred to by number only", [{"op": "addtrigs", "trigs": [{"conds": [], "acts": [e], "players": [4]}]}], "single", False))
    # a copy of a stored unit-property set carrying a FREE slot number: existing references stay on their slot
    pool2 = author._existing_cuwps()
    used2 = {c["idx"] for c in pool2}
    free2 = [i for i in range(1, 65) if i not in used2]
    if pool2 and free2:
        cp = Obj(**{k2: (list(v2) if isinstance(v2, list) else v2) for k2, v2 in pool2[0].items()})
        cp["idx"] = free2[-1]
        e = author.entry("a", 11)
        e["args"] = [(a, (cp if v["k"] == "cuwp" else v)) for a, v in e["args"]]
        out.append(("a copy of a stored unit-property set carrying a free slot number", [{"op": "addtrigs", "trigs": [{"conds": [], "acts": [e], "players": [5]}]}], "single", True))
    # the unit-property table itself gains copies of stored sets at free slot numbers (no trigger touched):
    # every existing reference stays on the slot it named
    if pool2 and len(free2) >= 2:
        allstored = [Obj(**{k2: (list(v2) if isinstance(v2, list) else v2) for k2, v2 in c.items()}) for c in pool2]
        copies = []
        for c, k in zip(allstored[:3], reversed(free2)):
            cc = Obj(**{k2: (list(v2) if isinstance(v2, list) else v2) for k2, v2 in c.items() if k2 != "uid"})
            cc["idx"] = k
            copies.append(cc)
        out.append(("copies of stored unit-property sets put into the table at free slot numbers", [{"op": "setuprp", "cuwps": allstored + copies}], "single", False))
        # ... and then a NEW set: with equal sets on several slots, every one of those slots is still occupied
        if len(free2) >= 5:
            fresh = Obj(k="cuwp", hp=33, sp=44, ep=55, res=777, hangar=2, flags=[True, False, False, False, True], unk=False, vs=[True] * 5 + [False], vu=[True] * 6 + [False], padding=0, idx=None)
            e = author.entry("a", 11)
            e["args"] = [(a, (fresh if v["k"] == "cuwp" else v)) for a, v in e["args"]]
            out.append(("a new unit-property set on a table that holds equal sets on several slots",
                        [{"op": "setuprp", "cuwps": allstored + copies}, {"op": "addtrigs", "trigs": [{"conds": [], "acts": [e], "players": [2]}]}], "single", False))
    # one unit's setting authored twice through the list form of the upsert: the later values are the ones saved
    if have["unis"]:
        u1 = author.unit(have["unis"])
        u2 = dict(author.unit(have["unis"]), unit=u1["unit"])
        u2["weapons"] = [(w, (b + 7) % 65536, (g + 1) % 65536) for (w, b, g) in u1["weapons"]]
        u2["shield"], u2["armor"], u2["default"] = (u1["shield"] + 1) % 65536, (u1["armor"] + 1) % 256, False
        out.append(("a unit setting replaced through the list form of the upsert", [{"op": "upsert", "unit": u1, "batch": True}, {"op": "upsert", "unit": u2, "batch": True}], "single", False))
    # two EQUAL sets placed on two free slots, neither referenced by any trigger, then a new third set through a
    # trigger: each of the three has a slot of its own
    if len(free2) >= 6 and b"UPRP" in author.chunks:
        tw = lambda k: Obj(k="cuwp", hp=12, sp=34, ep=56, res=4242, hangar=1, flags=[False, True, False, False, False], unk=False, vs=[True] * 5 + [False], vu=[True] * 6 + [False], padding=0, idx=k)  # noqa: E731
        third = Obj(k="cuwp", hp=21, sp=43, ep=65, res=2424, hangar=3, flags=[True, False, False, False, False], unk=False, vs=[True] * 5 + [False], vu=[True] * 6 + [False], padding=0, idx=None)
        e = author.entry("a", 11)
        e["args"] = [(a, (third if v["k"] == "cuwp" else v)) for a, v in e["args"]]
        stored_all = [Obj(**{k2: (list(v2) if isinstance(v2, list) else v2) for k2, v2 in c.items()}) for c in pool2]
        out.append(("equal sets on two slots nobody refers to, then a new set",
                    [{"op": "setuprp", "cuwps": stored_all + [tw(free2[0]), tw(free2[-1])]}, {"op": "addtrigs", "trigs": [{"conds": [], "acts": [e], "players": [1]}]}], "single", False))
    # a location that carries number 64 on a map whose table has no entry 64: it is placed there like any other
    if 64 not in author.view["locs"]:
        l64 = Obj(k="loc", x1=0, y1=0, x2=2048, y2=2048, name=b"my own 64", idx=64, el=[True] * 6)
        e = author.entry("a", 28)
        e["args"] = [(a, (l64 if v["k"] == "loc" else v)) for a, v in e["args"]]
        out.append(("a location carrying number 64 on a map without an entry 64", [{"op": "addtrigs", "trigs": [{"conds": [], "acts": [e], "players": [3]}]}], "single", False))
    # objects carrying the LAST number of their table (location 255, unit-property set 64, switch 255)
    acts = []
    if 255 not in author.view["locs"] and len(author.view["locs"]) < 250:
        last_loc = Obj(k="loc", x1=16, y1=32, x2=48, y2=64, name=b"last slot", idx=255, el=[True, False, True, False, True, False])
        e = author.entry("a", 28)
        e["args"] = [(a, (last_loc if v["k"] == "loc" else v)) for a, v in e["args"]]
        acts.append(e)
    if 64 not in used2 and len(used2) < 60:
        last_cu = Obj(k="cuwp", hp=64, sp=64, ep=64, res=6464, hangar=0, flags=[False] * 5, unk=False, vs=[True] * 5 + [False], vu=[True] * 6 + [False], padding=0, idx=64)
        e = author.entry("a", 11)
        e["args"] = [(a, (last_cu if v["k"] == "cuwp" else v)) for a, v in e["args"]]
        acts.append(e)
    e = author.entry("a", 13)
    last_sw = Obj(k="sw", name=None, idx=255)
    e["args"] = [(a, (last_sw if v["k"] == "sw" else v)) for a, v in e["args"]]
    acts.append(e)
    out.append(("objects carrying the last number of their table", [{"op": "addtrigs", "trigs": [{"conds": [], "acts": acts, "players": [7]}]}], "single", False))
    # the same trigger added three times (hyper triggers): all three must be in the file
    t = author.trigger(nc=1, na=3, raw_p=0)
    out.append(("three identical triggers in one call", [{"op": "addtrigs", "trigs": [t, t, t]}], "single", False))
    t2 = author.trigger(nc=1, na=2, raw_p=0)
    out.append(("a trigger added again after save and reload", [{"op": "addtrigs", "trigs": [t2]}, {"op": "reload"}, {"op": "addtrigs", "trigs": [t2, t2]}], "single", False))
    # unit-property sets that differ from one another (and from a stored one) in exactly one field
    pool = author._existing_cuwps()
    src = dict(rng.choice(pool)) if pool and len(pool) < 50 else dict(k="cuwp", hp=100, sp=100, ep=100, res=0, hangar=2, flags=[False] * 5, unk=False, vs=[True] * 5 + [False], vu=[True] * 6 + [False], padding=0, idx=None)
    acts = []
    for f in ["hp", "sp", "ep", "res", "hangar", "flags", "vs", "vu"]:
        o = Obj(**{k: (list(v) if isinstance(v, list) else v) for k, v in src.items() if k != "uid"})
        o["idx"] = None
        if f in ("flags", "vs", "vu"):
            o[f][rng.randrange(5)] ^= True
        else:
            o[f] = o[f] + 1 if o[f] < 100 else o[f] - 1
        e = author.entry("a", 11)
        e["args"] = [(a, (o if v["k"] == "cuwp" else v)) for a, v in e["args"]]
        acts.append(e)
    out.append(("unit-property sets differing in one field", [{"op": "addtrigs", "trigs": [{"conds": [], "acts": acts, "players": [2]}]}], "multi", len(pool) > 56))
    # an object carrying the index of an OCCUPIED slot but other content: must not silently replace it
    ex = author.existing_loc()
    if ex is not None:
        lo = Obj(**{k: v for k, v in ex.items() if k != "uid"})
        lo["x1"] = (lo["x1"] + 32) % 8192
        t = author.trigger(nc=1, na=3, raw_p=0)
        n = 0
        for e in t["conds"] + t["acts"]:
            if e["k"] == "rich" and any(v["k"] == "loc" for _, v in e["args"]):
                e["args"] = [(a, (lo if v["k"] == "loc" else v)) for a, v in e["args"]]
                n += 1
        if not n:
            e = author.entry("a", 10)
            e["args"] = [(a, (lo if v["k"] == "loc" else v)) for a, v in e["args"]]
            t["acts"] = [e]
        out.append(("location carrying an occupied index with other content", [{"op": "addtrigs", "trigs": [t]}], "single", True))
    pool = author._existing_cuwps()
    if pool:
        cu = Obj(**{k: (list(v) if isinstance(v, list) else v) for k, v in rng.choice(pool).items()})
        cu["hp"] = cu["hp"] + 1 if cu["hp"] < 100 else cu["hp"] - 1
        e = author.entry("a", 11)
        e["args"] = [(a, (cu if v["k"] == "cuwp" else v)) for a, v in e["args"]]
        out.append(("unit-property set carrying an occupied index with other content", [{"op": "addtrigs", "trigs": [{"conds": [], "acts": [e], "players": [1]}]}], "single", True))
    return out


def scenario_line(sc):
    return " ".join(["edit", hx(sc["base"])] + [x for ed in sc["history"] for x in edit_tokens(ed)])


def describe(sc):
    ops = []
    for ed in sc["history"]:
        if ed["op"] == "addtrigs":
            ops.append("addtrigs[%s]" % ",".join("%dc/%da" % (len(t["conds"]), len(t["acts"])) for t in ed["trigs"]))
        elif ed["op"] == "upsert":
            ops.append("upsert(unit %d)" % ed["unit"]["unit"])
        elif ed["op"] == "addwavs":
            ops.append("addwavs(%d)" % len(ed["paths"]))
        elif ed["op"] == "setmrgn":
            ops.append("setmrgn(%d locations, indices .. %s)" % (len(ed["locs"]), [l["idx"] for l in ed["locs"]][-2:]))
        elif ed["op"] == "setuprp":
            ops.append("setuprp(%d slots, indices %s)" % (len(ed["cuwps"]), [c["idx"] for c in ed["cuwps"]][-3:]))
        else:
            ops.append("reload")
    return " ; ".join(ops)


def degenerate_histories(author, rng):
    """authored content that cannot (or can barely) be laid out: C11"""
    out = []
    out.append(("17 conditions", [{"op": "addtrigs", "trigs": [author.trigger(nc=17, na=1, raw_p=0)]}]))
    out.append(("65 actions", [{"op": "addtrigs", "trigs": [author.trigger(nc=1, na=65, raw_p=0)]}]))
    out.append(("100 raw actions", [{"op": "addtrigs", "trigs": [dict(author.trigger(nc=0, na=0), acts=[author.raw_entry("a") for _ in range(100)])]}]))
    t = author.trigger(nc=2, na=62, raw_p=0)
    t["acts"] += [author.raw_entry("a") for _ in range(3)]
    out.append(("62 rich + 3 raw actions", [{"op": "addtrigs", "trigs": [t]}]))
    t = author.trigger(nc=16, na=1, raw_p=0)
    t["conds"] += [author.raw_entry("c")]
    out.append(("16 rich + 1 raw conditions", [{"op": "addtrigs", "trigs": [t]}]))
    out.append(("0 conditions 0 actions no players", [{"op": "addtrigs", "trigs": [{"conds": [], "acts": [], "players": []}]}]))
    out.append(("16 conditions 64 actions", [{"op": "addtrigs", "trigs": [author.trigger(nc=16, na=64)]}]))
    # integer beyond its field
    for _ in range(3):
        t = author.trigger(nc=1, na=2, raw_p=0)
        nums = [v for e in t["conds"] + t["acts"] for _, v in e["args"] if v["k"] == "num"]
        if nums:
            rng.choice(nums)["n"] = rng.choice([1 << 32, 1 << 16, 1 << 8, (1 << 32) + 5])
            out.append(("integer beyond a field's range", [{"op": "addtrigs", "trigs": [t]}]))
    # location / cuwp / switch carrying an index outside the slot range
    for kind, bad in (("loc", [0, 256, 300]), ("cuwp", [0, 65, 1000]), ("sw", [256, 1000])):
        for b in bad:
            t = author.trigger(nc=2, na=6, raw_p=0)
            objs = [v for e in t["conds"] + t["acts"] for _, v in e["args"] if v["k"] == kind]
            if objs:
                o = Obj(**{k: v for k, v in rng.choice(objs).items() if k != "uid"})
                o["idx"] = b
                for e in t["conds"] + t["acts"]:
                    e["args"] = [(a, (o if v["k"] == kind else v)) for a, v in e["args"]]
                out.append(("%s carrying index %d" % (kind, b), [{"op": "addtrigs", "trigs": [t]}]))
    # a switch referred to by number alone, with a number no switch has, in an ACTION (whose field is 32 bits wide,
    # so only the range check of the switch table can stop it)
    for b in (256, 300, 70000):
        e = author.entry("a", 13)
        ghost = Obj(k="sw", name=None, idx=b)
        e["args"] = [(a, (ghost if v["k"] == "sw" else v)) for a, v in e["args"]]
        out.append(("set-switch action on switch number %d (by number only)" % b, [{"op": "addtrigs", "trigs": [{"conds": [], "acts": [e], "players": [0]}]}]))
    # more new objects than slots (order of allocation is free: oracle only, no byte comparison with the model)
    many = []
    for i in range(70):
        e = author.entry("a", 11)   # create unit with properties
        cu = Obj(k="cuwp", hp=50, sp=0, ep=0, res=1000 + i, hangar=0, flags=[False] * 5, unk=False, vs=[True] * 5 + [False], vu=[True] * 6 + [False], padding=0, idx=None)
        e["args"] = [(a, (cu if v["k"] == "cuwp" else v)) for a, v in e["args"]]
        many.append(e)
    out.append(("70 distinct new unit-property sets", [{"op": "addtrigs", "trigs": [{"conds": [], "acts": many[:60], "players": [0]}, {"conds": [], "acts": many[60:], "players": [0]}]}], "multi"))
    # a hand-built unit-property section holding a slot whose index is outside 1..64, referenced through an
    # equal index-less set: the reference must not be written as a slot that does not exist
    stored = [Obj(**c) for c in author._existing_cuwps()][:5]
    for bad in (65, 200, 0):
        odd = Obj(k="cuwp", hp=77, sp=1, ep=2, res=12345 + bad, hangar=0, flags=[False] * 5, unk=False, vs=[True] * 5 + [False], vu=[True] * 6 + [False], padding=0, idx=bad)
        same = Obj(**{k: (list(v) if isinstance(v, list) else v) for k, v in odd.items() if k != "uid"})
        same["idx"] = None
        e = author.entry("a", 11)
        e["args"] = [(a, (same if v["k"] == "cuwp" else v)) for a, v in e["args"]]
        out.append(("hand-built UPRP section with a slot at index %d, referenced by an equal index-less set" % bad,
                    [{"op": "setuprp", "cuwps": stored + [odd]}, {"op": "addtrigs", "trigs": [{"conds": [], "acts": [e], "players": [0]}]}]))
    # a hand-built location section numbering its own locations past the table (256..), referenced by triggers
    stored_locs = []
    recs = refchk.fields_of(author.L[b"MRGN"], author.chunks[b"MRGN"])["records"] if b"MRGN" in author.chunks else []
    for sidx in sorted(author.view["locs"])[:6]:
        r = recs[sidx - 1]
        nm = refchk.resolve_string(author.chunks[b"STR "], 2, r["_string_id"]) if r["_string_id"] else None
        stored_locs.append(Obj(k="loc", x1=r["_left_x1"], y1=r["_top_y1"], x2=r["_right_x2"], y2=r["_bottom_y2"], name=nm, idx=sidx, el=[not (r["_elevation_flags"] >> i) & 1 for i in range(6)]))
    grid = [Obj(k="loc", x1=32 * i, y1=64, x2=32 * i + 32, y2=96, name=None, idx=k, el=[True] * 6) for i, k in enumerate((254, 255, 256, 300))]
    acts = []
    for g in grid:
        e = author.entry("a", 28)
        e["args"] = [(a, (g if v["k"] == "loc" else v)) for a, v in e["args"]]
        acts.append(e)
    out.append(("hand-built MRGN section numbering locations past 255, referenced by triggers",
                [{"op": "setmrgn", "locs": stored_locs + grid}, {"op": "addtrigs", "trigs": [{"conds": [], "acts": acts, "players": [0]}]}]))
    # non-7-bit authored text
    t = author.trigger(nc=0, na=0)
    t["acts"] = [{"k": "rich", "id": 9, "args": [("_text", Obj(k="str", s=b"caf\xe9"))], "flags": [False] * 5}]
    out.append(("authored string with a character above U+007F", [{"op": "addtrigs", "trigs": [t]}]))
    return out


def run(prop, tier, seed):
    out = Outcome(prop)
    rng = Rng(seed * 69621 + int(prop[1:]))
    spec = load_spec()
    classes = rich_classes()
    rf = refchk.ref_fields_of(spec)
    L = refchk.layouts_of(spec)
    widths = {"a": dict(L[b"TRIG"]["af"]), "c": dict(L[b"TRIG"]["cf"])}
    from rich_h import real_cycle

    scenarios = []
    per_base = {"quick": 4, "thorough": 12}[tier]
    nbase = -1
    for tag, data in base_maps(rng, spec, tier):
        base_out, err = real_cycle(data)
        if err:
            continue
        nbase += 1
        names = {n for n, _, _ in refchk.split_chunks(data)}
        have = {"unis": 100 if b"UNIS" in names else (130 if b"UNIx" in names else 0), "wav": b"WAV " in names}
        big = len(data) > 500000
        if prop == "C09" and big:
            continue
        for j in range((per_base if not (big and tier == "quick") else 2) if prop != "C09" else per_base // 4):
            Author._existing = {}
            author = Author(rng, spec, classes, data)
            mode = "single" if j % 3 != 2 else "multi"
            hist = gen_history(author, rng, mode, have)
            scenarios.append({"tag": tag, "base": data, "base_out": base_out, "history": hist, "mode": mode, "kind": "normal"})
        if prop in ("C04", "C07", "C11", "C10", "C09"):
            Author._existing = {}
            author = Author(rng, spec, classes, data)
            for what, hist, mode, may_raise in special_histories(author, rng, have):
                scenarios.append({"tag": tag, "base": data, "base_out": base_out, "history": hist, "mode": mode, "kind": "special:" + what, "may_raise": may_raise})
        if prop == "C11" and (tier == "thorough" or nbase in (1, 3, 4)):
            Author._existing = {}
            author = Author(rng, spec, classes, data)
            for item in degenerate_histories(author, rng):
                what, hist = item[0], item[1]
                scenarios.append({"tag": tag, "base": data, "base_out": base_out, "history": hist, "mode": item[2] if len(item) > 2 else "single", "kind": "degenerate:" + what})
    # editor objects reused across calls (real code only, judged by the independent reader)
    if prop in ("C07", "C09", "C04"):
        done = 0
        for tag, data in base_maps(rng, spec, tier):
            if len(data) > 500000 or done >= 3:
                continue
            try:
                probs = editor_reuse_scenario(data, spec)
            except Exception as ex:  # noqa: BLE001
                probs = ["the history raised %s" % err_class(ex)]
            if probs is None:
                continue
            done += 1
            out.case("editor-object-reuse", ("reuse:" + tag).encode() + data[:64], sample={"base": tag, "history": "one RichMrgnEditor: add X ; trigger with new Y ; save ; reload ; add Z", "problems": probs[:2]})
            for pr in probs[:2]:
                out.violations.append({"tag": tag, "kind": "editor object reused across calls", "history": "one RichMrgnEditor object: add_locations([X]) ; add a trigger pinging a new location Y ; save ; reload ; add_locations([Z])",
                                       "oracle": "every location keeps a slot of its own and every reference its target, however editor objects are reused", "problem": pr, "key": None,
                                       "hex": data.hex() if len(data) < 40000 else None, "fixture": tag if tag.startswith("fixture") else None})
    if prop == "C07":
        done = 0
        for tag, data in base_maps(rng, spec, tier):
            if len(data) > 500000 or done >= 3:
                continue
            try:
                probs = degenerate_locations_scenario(data, spec)
            except Exception as ex:  # noqa: BLE001
                probs = ["the history raised %s" % err_class(ex)]
            if probs is None:
                continue
            done += 1
            hist = "add_locations([named (0,0,0,0), named (640,640,640,640), (0,0,1,1)]) ; save ; reload ; add_locations([ordinary]) ; save"
            out.case("degenerate-locations-then-edit", ("degloc:" + tag).encode() + data[:64], sample={"base": tag, "history": hist, "problems": probs[:2]})
            for pr in probs[:2]:
                out.violations.append({"tag": tag, "kind": "locations of no extent, then another edit", "history": hist,
                                       "oracle": "every location the map being edited holds — also a named one of no extent — keeps its slot and its values when another location is added", "problem": pr, "key": None,
                                       "hex": data.hex() if len(data) < 40000 else None, "fixture": tag if tag.startswith("fixture") else None})
    if prop == "C07":
        done = 0
        for tag, data in base_maps(rng, spec, tier):
            if len(data) > 500000 or done >= 3:
                continue
            try:
                probs = two_variants_scenario(data, spec)
            except Exception as ex:  # noqa: BLE001
                probs = ["the history raised %s" % err_class(ex)]
            if probs is None:
                continue
            done += 1
            out.case("two-variants-of-one-object", ("variants:" + tag).encode() + data[:64], sample={"base": tag, "history": "load once ; A = add a trigger ; B = upsert a unit (from the same object) ; save B ; save the original", "problems": probs[:2]})
            for pr in probs[:2]:
                out.violations.append({"tag": tag, "kind": "two edits of one loaded object", "history": "load once ; variant A = replace(TRIG + 1 trigger) ; variant B = replace(unit settings + 1 unit) from the same object ; save B ; save the original",
                                       "oracle": "an edit produces a new map and leaves the one it started from as it was: other variants and the original are unaffected", "problem": pr, "key": None,
                                       "hex": data.hex() if len(data) < 40000 else None, "fixture": tag if tag.startswith("fixture") else None})
    lines = [scenario_line(sc) for sc in scenarios]
    model = None
    try:
        model = run_driver(lines)
    except Exception as e:  # noqa: BLE001
        out.notes.append("model driver unavailable: %s" % e)
        out.disagreements.append({"op": "driver", "what": str(e)[:200]})
    for i, sc in enumerate(scenarios):
        res, err, authored = real_run(sc["base"], sc["history"], classes)
        rl = ("OK " + hx(res)) if res is not None else "ERR " + err
        desc = describe(sc)
        out.case(sc["kind"].split(":")[0] + ":" + sc["mode"], lines[i].encode(), sample={"base": sc["tag"], "history": desc, "mode": sc["mode"], "kind": sc["kind"], "real": rl[:24]})
        out.count("real:" + ("OK" if res is not None else rl))
        base_info = {"tag": sc["tag"], "kind": sc["kind"], "history": desc, "line": lines[i] if len(lines[i]) < 60000 else None, "fixture": sc["tag"] if sc["tag"].startswith("fixture") else None}
        if model is not None and sc["mode"] == "single":
            ml = model[i]
            same = ml == rl or (ml.startswith("ERR") and rl.startswith("ERR") and sc["kind"].startswith("degenerate"))
            if not same:
                out.disagreements.append({"op": "edit", "tag": sc["tag"], "history": desc, "kind": sc["kind"], "model": ml[:100] + " ... " + ml[-40:], "real": rl[:100] + " ... " + rl[-40:],
                                          "first_diff": next((j for j in range(min(len(ml), len(rl))) if ml[j] != rl[j]), None),
                                          "line": lines[i] if len(lines[i]) < 400000 else None})
        if res is None:
            if sc["kind"] == "normal" or (sc["kind"].startswith("special") and not sc.get("may_raise")):
                out.violations.append(dict(base_info, oracle="in-range authored content on a decodable map saves", key=None, got=rl))
            continue
        if prop == "C04" and not sc["kind"].startswith("degenerate"):
            check_c04(sc, res, spec, rf, widths, out, base_info)
            reload_equal(sc, res, authored, out, base_info)
        if prop == "C09" and not sc["kind"].startswith("degenerate"):
            # the references of the saved map: every new object resolves to a slot of its own holding its values
            # (what a shared weapon record does to unit settings is C04's business, not an allocation matter)
            n0 = len(out.violations)
            check_c04(sc, res, spec, rf, widths, out, base_info)
            check_c07(sc, sc["base_out"], res, spec, out, base_info)      # ... and no slot in use is handed out again
            out.violations[n0:] = [v for v in out.violations[n0:] if v.get("key") is None]
        if prop == "C10" and not sc["kind"].startswith("degenerate"):
            # whatever edits are made elsewhere: unmodelled sections of the unedited save sit at the same index, identical
            from rich_h import passthrough_problems

            for d, key in passthrough_problems(sc["base_out"], res, spec):
                out.violations.append(dict(base_info, oracle="unmodelled content passes through untouched and in place, whatever edits are made elsewhere", diff=d, key=key))
        if prop == "C07" and not sc["kind"].startswith("degenerate"):
            check_c07(sc, sc["base_out"], res, spec, out, base_info)
            if sc["tag"] == "gen:uprp-values-only":
                # this base is judged against the map's own BYTES (not against its unedited save): the unit-property sets it
                # stores — the two that hold values only included — sit in their slots with their values after any edit
                vin, vout = refchk.game_view(sc["base"], spec)["cuwps"], refchk.game_view(res, spec)["cuwps"]
                for slot, rec in sorted(vin.items()):
                    if vout.get(slot) != rec:
                        out.violations.append(dict(base_info, oracle="a unit-property set the map stores keeps its slot and its values through any edit (also a set that holds values only, nothing ticked)",
                                                   slot=slot, stored=rec, now=vout.get(slot), key=None, hex=sc["base"].hex() if len(sc["base"]) < 40000 else None))
                        break
        if prop == "C11":
            before = set(refchk.struct_valid(sc["base_out"], spec))
            for p in [p for p in refchk.struct_valid(res, spec) if p not in before or p.startswith("UPUS marks")][:3]:
                out.violations.append(dict(base_info, oracle="every emitted CHK is structurally valid", problem=p, key=None))
    return out


def editor_reuse_scenario(data, spec):
    """real code only: ONE RichMrgnEditor object serves two calls between which the map gained a location by
    another route (a trigger's new location, placed by the save).  Returns a list of problems judged on the
    saved bytes by the independent reader (None = scenario not applicable to this map)."""
    from richchk.editor.richchk.rich_chk_editor import RichChkEditor
    from richchk.editor.richchk.rich_mrgn_editor import RichMrgnEditor
    from richchk.editor.richchk.rich_trig_editor import RichTrigEditor
    from richchk.model.richchk.mrgn.rich_location import RichLocation
    from richchk.model.richchk.mrgn.rich_mrgn_section import RichMrgnSection
    from richchk.model.richchk.str.rich_string import RichString
    from richchk.model.richchk.trig.actions.minimap_ping_action import MinimapPingAction
    from richchk.model.richchk.trig.conditions.always_condition import AlwaysCondition
    from richchk.model.richchk.trig.player_id import PlayerId
    from richchk.model.richchk.trig.rich_trig_section import RichTrigSection
    from richchk.model.richchk.trig.rich_trigger import RichTrigger

    cio, rio = shared_io()
    base_view = refchk.game_view(data, spec)
    if len(base_view["locs"]) > 250:
        return None
    rich = rio.decode_chk(cio.decode_chk_binary_data(data))
    mrgn, trig = find_section(rich, RichMrgnSection), find_section(rich, RichTrigSection)
    if mrgn is None or trig is None:
        return None
    rects = {"X": (8, 8, 40, 40), "Y": (48, 8, 80, 40), "Z": (88, 8, 120, 40)}
    mk = lambda k: RichLocation(*rects[k], RichString("reuse " + k))  # noqa: E731
    ed = RichMrgnEditor()
    m1, _ = ed.add_locations([mk("X")], mrgn)
    rich = RichChkEditor().replace_chk_section(m1, rich)
    t = RichTrigger(_conditions=[AlwaysCondition()], _actions=[MinimapPingAction(_location=mk("Y"))], _players={PlayerId.PLAYER_1})
    rich = RichChkEditor().replace_chk_section(RichTrigEditor.add_triggers([t], find_section(rich, RichTrigSection)), rich)
    rich2 = rio.decode_chk(cio.decode_chk_binary_data(cio.encode_chk_to_bytes(rio.encode_chk(rich))))
    m2, _ = ed.add_locations([mk("Z")], find_section(rich2, RichMrgnSection))      # the SAME editor object
    rich2 = RichChkEditor().replace_chk_section(m2, rich2)
    out = cio.encode_chk_to_bytes(rio.encode_chk(rich2))
    v = refchk.game_view(out, spec)
    probs = []
    where = {}
    for k, r in rects.items():
        slots = [s for s, c in v["locs"].items() if tuple(c[:4]) == r]
        if len(slots) != 1:
            probs.append("location %s %r is stored %d times (slots %s)" % (k, r, len(slots), slots))
        else:
            where[k] = slots[0]
    for s, c in base_view["locs"].items():
        if v["locs"].get(s) != c:
            probs.append("pre-existing location slot %d changed: %r -> %r" % (s, c, v["locs"].get(s)))
            break
    # the trigger added in between still pings Y
    L = refchk.layouts_of(spec)
    trigs = [t2 for n, _, p in refchk.split_chunks(out) if n == b"TRIG" for t2 in refchk.fields_of(L[b"TRIG"], p)["triggers"]]
    pings = [a["_location_id"] for t2 in trigs[-1:] for a in t2["acts"] if a["_action_id"] == 28]
    if "Y" in where and pings != [where["Y"]]:
        probs.append("the trigger authored with location Y refers to slot %s, Y is in slot %s" % (pings, where.get("Y")))
    return probs


def degenerate_locations_scenario(data, spec):
    """real code only: locations of the shapes maps really hold besides ordinary rectangles — a named location of no
    extent parked at the origin (a "scratch" location that triggers move around), a named location of no extent
    elsewhere, a one-pixel one — are added, the map is saved and loaded again, and an ordinary location is added.
    Everything the first save stored is what already exists at the second edit: it must sit in its slot unchanged."""
    from richchk.editor.richchk.rich_chk_editor import RichChkEditor
    from richchk.editor.richchk.rich_mrgn_editor import RichMrgnEditor
    from richchk.model.richchk.mrgn.rich_location import RichLocation
    from richchk.model.richchk.mrgn.rich_mrgn_section import RichMrgnSection
    from richchk.model.richchk.str.rich_string import RichString

    cio, rio = shared_io()
    base_view = refchk.game_view(data, spec)
    if len(base_view["locs"]) > 248:
        return None
    rich = rio.decode_chk(cio.decode_chk_binary_data(data))
    mrgn = find_section(rich, RichMrgnSection)
    if mrgn is None:
        return None
    first = [RichLocation(0, 0, 0, 0, RichString("scratch at origin")), RichLocation(640, 640, 640, 640, RichString("scratch point")),
             RichLocation(0, 0, 1, 1, RichString("one pixel"))]
    m1, _ = RichMrgnEditor().add_locations(first, mrgn)
    saved1 = cio.encode_chk_to_bytes(rio.encode_chk(RichChkEditor().replace_chk_section(m1, rich)))
    v1 = refchk.game_view(saved1, spec)
    probs = []
    for loc in first:
        r = (loc.left_x1, loc.top_y1, loc.right_x2, loc.bottom_y2)
        name = loc.custom_location_name.value.encode().hex()
        if not [sl for sl, c in v1["locs"].items() if tuple(c[:4]) == r and c[4] == name]:
            probs.append("the authored location %r %r is not in the saved map" % (r, loc.custom_location_name.value))
    rich2 = rio.decode_chk(cio.decode_chk_binary_data(saved1))
    m2, _ = RichMrgnEditor().add_locations([RichLocation(96, 96, 192, 160, RichString("ordinary area"))], find_section(rich2, RichMrgnSection))
    saved2 = cio.encode_chk_to_bytes(rio.encode_chk(RichChkEditor().replace_chk_section(m2, rich2)))
    v2 = refchk.game_view(saved2, spec)
    for sl, c in sorted(v1["locs"].items()):
        if v2["locs"].get(sl) != c:
            probs.append("location slot %d of the map being edited changed: %r -> %r" % (sl, c, v2["locs"].get(sl)))
            break
    if not [sl for sl, c in v2["locs"].items() if tuple(c[:4]) == (96, 96, 192, 160)]:
        probs.append("the location added by the second edit is not in the saved map")
    return probs


def two_variants_scenario(data, spec):
    """real code only: ONE loaded map object is edited twice, independently (variant A gets a trigger, variant B a
    unit setting).  Saving B must give what B alone gives on a fresh load, and saving the untouched original must
    still give the unedited save.  Returns problems (None = not applicable)."""
    from richchk.editor.richchk.rich_chk_editor import RichChkEditor
    from richchk.editor.richchk.rich_trig_editor import RichTrigEditor
    from richchk.editor.richchk.rich_unis_editor import RichUnisEditor
    from richchk.editor.richchk.rich_unix_editor import RichUnixEditor
    from richchk.model.richchk.str.rich_string import RichString
    from richchk.model.richchk.trig.actions.display_text_message_action import DisplayTextMessageAction
    from richchk.model.richchk.trig.conditions.always_condition import AlwaysCondition
    from richchk.model.richchk.trig.player_id import PlayerId
    from richchk.model.richchk.trig.rich_trig_section import RichTrigSection
    from richchk.model.richchk.trig.rich_trigger import RichTrigger
    from richchk.model.richchk.unis.rich_unis_section import RichUnisSection
    from richchk.model.richchk.unis.unit_id import UnitId
    from richchk.model.richchk.unis.unit_setting import UnitSetting
    from richchk.model.richchk.unix.rich_unix_section import RichUnixSection

    cio, rio = shared_io()
    load = lambda: rio.decode_chk(cio.decode_chk_binary_data(data))  # noqa: E731
    save = lambda r: cio.encode_chk_to_bytes(rio.encode_chk(r))  # noqa: E731
    base = load()
    trig = find_section(base, RichTrigSection)
    units = next((s for s in base.chk_sections if isinstance(s, (RichUnisSection, RichUnixSection))), None)
    if trig is None or units is None:
        return None
    mk_t = lambda: RichTrigger(_conditions=[AlwaysCondition()], _actions=[DisplayTextMessageAction(_text=RichString("variant A only"))], _players={PlayerId.PLAYER_2})  # noqa: E731
    mk_u = lambda: UnitSetting(_unit_id=UnitId.ZERG_ZERGLING, _hitpoints=Decimal(77), _shieldpoints=1, _armorpoints=2, _build_time=3, _mineral_cost=4, _gas_cost=5,  # noqa: E731
                               _custom_unit_name=RichString("variant B only"), _weapons=[])

    def edit_b(r):
        u = next(s for s in r.chk_sections if isinstance(s, (RichUnisSection, RichUnixSection)))
        ed = RichUnisEditor() if isinstance(u, RichUnisSection) else RichUnixEditor()
        return RichChkEditor().replace_chk_section(ed.upsert_unit_setting(mk_u(), u), r)

    want_unedited = save(load())
    want_b = save(edit_b(load()))
    RichChkEditor().replace_chk_section(RichTrigEditor.add_triggers([mk_t()], trig), base)      # variant A, result dropped
    got_b = save(edit_b(base))                                                                   # variant B from the SAME object
    got_unedited = save(base)
    probs = []
    if got_b != want_b:
        va, vb = refchk.game_view(want_b, spec), refchk.game_view(got_b, spec)
        probs.append("variant B saved from the shared object differs from variant B saved from a fresh load (triggers %d vs %d)" % (len(vb["triggers"]), len(va["triggers"])))
    if got_unedited != want_unedited:
        probs.append("the untouched original no longer saves as the unedited map")
    return probs


def equalish(a, g):
    """authored object vs loaded object: equal as the library understands it, ignoring the slot numbers the
    save allocated (a switch that carries a number is that switch whatever its name says)"""
    if type(a).__name__ == "RichSwitch" and type(g).__name__ == "RichSwitch":
        if a.index is not None:
            return a.index == g.index
        return normalise(a.custom_name) == normalise(g.custom_name)
    if dataclasses.is_dataclass(a) and not isinstance(a, type):
        if type(a) is not type(g) and not (type(a).__name__.endswith("String") and type(g).__name__.endswith("String")):
            return False
        if type(a).__name__.endswith("String"):
            return normalise(a) == normalise(g) or (a.value == g.value)
        for f in dataclasses.fields(a):
            if f.name in ("_index", "_log"):
                continue
            if not equalish(getattr(a, f.name), getattr(g, f.name)):
                return False
        return True
    if isinstance(a, (list, tuple)):
        return isinstance(g, (list, tuple)) and len(a) == len(g) and all(equalish(x, y) for x, y in zip(a, g))
    return normalise(a) == normalise(g)


def normalise(o):
    """library object -> comparable value with indices of locations / switches / unit-property sets removed"""
    import enum

    if dataclasses.is_dataclass(o) and not isinstance(o, type):
        d = {}
        for f in dataclasses.fields(o):
            if f.name in ("_index", "_log"):
                continue
            d[f.name] = normalise(getattr(o, f.name))
        return (type(o).__name__, tuple(sorted(d.items())))
    if isinstance(o, enum.Enum):
        return (type(o).__name__, o.name)
    if isinstance(o, (list, tuple)):
        return tuple(normalise(x) for x in o)
    if isinstance(o, (set, frozenset)):
        return tuple(sorted(repr(normalise(x)) for x in o))
    if isinstance(o, Decimal):
        return ("Decimal", str(o.normalize()))
    return o


def reload_equal(sc, res, authored, out, base_info):
    from richchk.io.chk.chk_io import ChkIo
    from richchk.io.richchk.richchk_io import RichChkIo
    from richchk.model.richchk.trig.rich_trig_section import RichTrigSection

    try:
        rich = shared_io()[1].decode_chk(shared_io()[0].decode_chk_binary_data(res))
    except Exception as ex:  # noqa: BLE001
        out.violations.append(dict(base_info, oracle="the saved map loads again", key=None, got=err_class(ex)))
        return
    trigs = [t for s in rich.chk_sections if isinstance(s, RichTrigSection) for t in s.triggers]
    got = trigs[-len(authored):] if authored else []
    for i, (a, g) in enumerate(zip(authored, got)):
        if not equalish(a, g):
            # locate the first differing entry
            where = None
            for part in ("_conditions", "_actions"):
                for k, (x, y) in enumerate(zip(getattr(a, part), getattr(g, part))):
                    if not equalish(x, y):
                        where = "%s[%d]: authored %s, loaded %s" % (part, k, str(normalise(x))[:300], str(normalise(y))[:300])
                        break
                if where:
                    break
            out.violations.append(dict(base_info, oracle="loading the saved map returns rich objects equal to the authored ones", key=None, trigger=i, where=where or "players / lengths differ"))
            break
