"""C02 / C03 / C10 / C11 on unedited load/save cycles: bytes -> rich -> bytes.

Real side: ChkIo + RichChkIo in-process.  Model side: driver op `cycle`.  Oracles use the
independent reader (refchk.game_view / struct_valid) — never the library's own decoder.
"""
import glob
import json
import logging
import os
import sys

sys.path.insert(0, os.path.dirname(os.path.abspath(__file__)))
import refchk  # noqa: E402
from common import REPO, Outcome, Rng, err_class, hx, load_spec, run_driver, shared_io  # noqa: E402
from mapgen import MapGen  # noqa: E402

logging.disable(logging.CRITICAL)


def real_cycle(data):
    from richchk.io.chk.chk_io import ChkIo
    from richchk.io.richchk.richchk_io import RichChkIo

    try:
        out = shared_io()[0].encode_chk_to_bytes(shared_io()[1].encode_chk(shared_io()[1].decode_chk(shared_io()[0].decode_chk_binary_data(data))))
    except Exception as ex:  # noqa: BLE001
        return None, err_class(ex)
    return out, None


def real_line(data):
    out, err = real_cycle(data)
    if err:
        return "ERR " + err, None
    out2, err2 = real_cycle(out)
    if err2:
        return "OK " + hx(out) + " CYCLE2-ERR " + err2, out
    return "OK " + hx(out) + (" IDEMPOTENT" if out2 == out else " CHANGES-AGAIN"), out


# ------------------------------------------------------------------------------------------ diffs
def weapons_reachable():
    return refchk.REACHABLE_WEAPONS


def has_gap(data, spec, which):
    """does some trigger of the input have an empty entry followed by a non-empty one?"""
    lay = refchk.layouts_of(spec)[b"TRIG"]
    for n, _, p in refchk.split_chunks(data):
        if n == b"TRIG" and len(p) % lay["trigSize"] == 0:
            for t in refchk.fields_of(lay, p)["triggers"]:
                ids = [r["_action_id"] for r in t["acts"]] if which == "acts" else [r["_condition_id"] for r in t["conds"]]
                seen_zero = False
                for i in ids:
                    if i == 0:
                        seen_zero = True
                    elif seen_zero:
                        return True
    return False


def view_diff(before, after, data, out, spec):
    """components of the game view that changed, each mapped to a finding key (or None = unlisted)"""
    va, vb = refchk.game_view(data, spec), refchk.game_view(out, spec)
    diffs = []
    sa, sb = va["sections"], vb["sections"]
    if sb[: len(sa)] != sa:
        changed = [(x, y) for x, y in zip(sa, sb) if x != y]
        only_mrgn = all(x[0] == b"MRGN".hex() and x[1] == 1280 and y == (x[0], 5100) for x, y in changed) and len(sb) >= len(sa)
        only_str = all(x[0] == b"STR ".hex() for x, y in changed)
        diffs.append(("section sizes/positions: %s" % changed[:3], "mrgn-64-slot-table-expanded" if (changed and only_mrgn) else ("str-grew-on-unedited-save" if changed and only_str else None)))
    extra = sb[len(sa):]
    if any(n not in (b"SWNM".hex(), b"UPRP".hex(), b"UPUS".hex()) for n, _ in extra):
        diffs.append(("unexpected appended sections %s" % extra, None))
    if va["passthrough"] != vb["passthrough"]:
        diffs.append(("an unrecognised section changed", None))
    for k in ("locs", "cuwps", "switches", "wavs", "UNIS", "UNIx"):
        if va.get(k) != vb.get(k) and not (k in ("cuwps", "switches") and va.get(k) in ({}, None) and vb.get(k) in ({}, None)):
            key = None
            if k == "switches":
                # a switch whose name id resolves to the empty text comes back as "no name"
                chg = {i for i in set(va[k]) | set(vb[k]) if va[k].get(i) != vb[k].get(i)}
                if all(va[k].get(i) == "" and vb[k].get(i) is None for i in chg):
                    key = "switch-empty-name-becomes-no-name"
            diffs.append(("%s differ" % k, key))
    if va["upus"] is not None and va["upus"] != vb["upus"]:
        diffs.append(("UPUS %s -> %s" % (va["upus"][:8], (vb["upus"] or [])[:8]), "upus-recomputed-from-uprp"))
    for k in ("UNIS:weapons", "UNIx:weapons"):
        if va.get(k) != vb.get(k):
            reach = weapons_reachable()
            bad = [w for w in range(len(va[k][0])) if (va[k][0][w], va[k][1][w]) != (vb[k][0][w], vb[k][1][w])]
            diffs.append(("%s of weapons %s changed" % (k, bad[:6]), "unreachable-weapon-damage-zeroed" if all(w not in reach for w in bad) else None))
    ta, tb = va["triggers"], vb["triggers"]
    if len(ta) != len(tb):
        diffs.append(("trigger count %d -> %d" % (len(ta), len(tb)), None))
    else:
        for i, (x, y) in enumerate(zip(ta, tb)):
            if x.get("execFlags") != y.get("execFlags"):
                diffs.append(("trigger %d execution flags %r -> %r" % (i, x.get("execFlags"), y.get("execFlags")), None))
            for part in ("conds", "acts", "players"):
                if x[part] != y[part]:
                    key = None
                    if part != "players":
                        if len(x[part]) != len(y[part]) and has_gap(data, spec, part):
                            key = "trigger-list-gap-compacted"
                        elif len(x[part]) == len(y[part]):
                            def strip(e):
                                return (e[0], tuple(kv for kv in e[1] if kv[0] not in ("mask", "bitmask"))) if e[0] == "rich" else e
                            if [strip(e) for e in x[part]] == [strip(e) for e in y[part]]:
                                key = "eud-mask-flag-dropped"
                    diffs.append(("trigger %d %s differ" % (i, part), key))
    return diffs


# ------------------------------------------------------------------------------------------ C10
def passthrough_problems(data, out, spec):
    lay = refchk.layouts_of(spec)
    rf = refchk.ref_fields_of(spec)
    ca, cb = refchk.split_chunks(data), refchk.split_chunks(out)
    probs = []
    rich = {b"MRGN", b"TRIG", b"UNIS", b"UNIx", b"UPRP", b"SWNM", b"WAV ", b"STR ", b"UPUS"}
    for i, (n, _, p) in enumerate(ca):
        if i >= len(cb) or cb[i][0] != n:
            probs.append(("section %d %r moved or vanished" % (i, n), None))
            continue
        if n not in rich and cb[i][2] != p:
            probs.append(("pass-through section %r changed" % n, None))
        if n == b"UPUS" and cb[i][2] != p:
            probs.append(("UPUS (recognised, no rich model) changed", "upus-recomputed-from-uprp"))
        if n == b"TRIG" and len(p) % lay[b"TRIG"]["trigSize"] == 0 and len(cb[i][2]) == len(p):
            ta = refchk.fields_of(lay[b"TRIG"], p)["triggers"]
            tb = refchk.fields_of(lay[b"TRIG"], cb[i][2])["triggers"]
            for ti, (x, y) in enumerate(zip(ta, tb)):
                for kind, part, idf in (("c", "conds", "_condition_id"), ("a", "acts", "_action_id")):
                    for k, r in enumerate(x[part]):
                        if r[idf] != 0 and r[idf] not in rf[kind]:
                            if y[part][k] != r:
                                moved = r in y[part]
                                gap = any(e[idf] == 0 for e in x[part][:k])
                                probs.append(("trigger %d: unsupported %s entry %d (type %d) %s" % (ti, part, k, r[idf], "moved" if moved else "changed"),
                                              "trigger-list-gap-compacted" if (moved and gap) else None))
    return probs


# ------------------------------------------------------------------------------------------ run
def run(prop, tier, seed):
    out = Outcome(prop)
    rng = Rng(seed * 48271 + int(prop[1:]))
    spec = load_spec()
    gen = MapGen(rng, spec)
    N = {"quick": 60, "thorough": 600}[tier]
    cases = []
    for p in sorted(glob.glob(os.path.join(REPO, "test", "resources", "*.chk"))):
        cases.append(("fixture:" + os.path.basename(p), open(p, "rb").read(), {"form": "fixture"}))
    for variant in (None, "mrgn64", "uprp-prefilled"):
        for _ in range(N // 6 if variant else N // 3):
            data, meta = gen.gen("editor", variant)
            cases.append(("editor" + (":" + variant if variant else ""), data, meta))
    for _ in range(N // 2):
        data, meta = gen.gen("valid")
        cases.append(("valid", data, meta))
    for tag, data in witness_maps(gen, spec):
        cases.append((tag, data, {"form": "witness"}))
    for tag, data in probe_maps(gen, spec):
        cases.append((tag, data, {"form": "probe"}))
    if prop == "C03":
        # the file form of the same save: written over an existing, LONGER file (opt-in given), the file holds
        # exactly the bytes of the save — nothing of the old content survives behind them
        import tempfile

        for tag, data, _ in cases[:3] + cases[-2:]:
            cio, rio = shared_io()
            try:
                dec = rio.encode_chk(rio.decode_chk(cio.decode_chk_binary_data(data)))
                want = cio.encode_chk_to_bytes(dec)
            except Exception:  # noqa: BLE001
                continue
            with tempfile.TemporaryDirectory(prefix="vrich_") as td:
                pth = os.path.join(td, "out.chk")
                with open(pth, "wb") as f:
                    f.write(b"previous, longer content of the file " * (len(want) // 30 + 50))
                out.case("file-overwrite", data, sample={"tag": tag, "op": "encode_chk_to_file over a longer file"})
                try:
                    cio.encode_chk_to_file(dec, pth, force_create=True)
                    got = open(pth, "rb").read()
                    if got != want:
                        out.violations.append({"tag": tag, "oracle": "a map saved to a file (over an existing longer file, opt-in given) is the saved bytes and nothing else", "key": None,
                                               "len_file": len(got), "len_save": len(want), "hex": data.hex() if len(data) < 40000 else None, "fixture": tag if tag.startswith("fixture") else None})
                except Exception as ex:  # noqa: BLE001
                    out.violations.append({"tag": tag, "oracle": "a map saves to a file when overwriting was requested", "key": None, "err": err_class(ex)})
    lines = ["cycle " + hx(d) for _, d, _ in cases]
    model = None
    try:
        model = run_driver(lines)
    except Exception as e:  # noqa: BLE001
        out.notes.append("model driver unavailable: %s" % e)
        out.disagreements.append({"op": "driver", "what": str(e)[:200]})
    for i, (tag, data, meta) in enumerate(cases):
        rl, res = real_line(data)
        out.case(tag, data, sample={"tag": tag, "len": len(data), "sections": meta.get("sections"), "real": rl[:40] + ("..." + rl[-24:] if len(rl) > 64 else "")})
        out.count("real:" + " ".join(x for x in rl.split(" ") if not x[:2].isalnum() or x in ("OK", "ERR", "IDEMPOTENT", "CHANGES-AGAIN") or x.isalpha())[:40])
        if model is not None and model[i] != rl:
            out.disagreements.append({"op": "cycle", "tag": tag, "hex": data.hex() if len(data) < 20000 else "(fixture) " + tag, "model": model[i][:120] + " ... " + model[i][-40:], "real": rl[:120] + " ... " + rl[-40:]})
        base = {"tag": tag, "hex": data.hex() if len(data) < 40000 else None, "fixture": tag if tag.startswith("fixture") else None}
        if res is None and prop == "C10":
            # the map does not cycle.  If it does once its unmodelled content (unknown / unsupported sections,
            # unsupported trigger entries) is taken out, that content is what the layer chokes on: it did not survive
            stripped = strip_unmodelled(data, spec)
            if stripped != data and real_cycle(stripped)[1] is None:
                non7 = any(n == b"STRx" and any(b >= 0x80 for b in p) for n, _, p in refchk.split_chunks(data))
                out.violations.append(dict(base, oracle="unmodelled content passes through untouched and in place",
                                           key="strx-non-7bit-byte-rejected" if (rl == "ERR unicode" and non7 and tag.startswith("witness")) else None,
                                           diff="load/save raises (%s) on this map but succeeds once its unsupported sections / trigger entries are removed" % rl))
        if res is None:
            if tag.startswith(("editor", "fixture")) and prop in ("C02", "C03", "C10"):
                # (for C10: content of a map that cannot be saved at all did not pass through)
                out.violations.append(dict(base, oracle="an editor-form map loads and saves", got=rl[:60], key=None))
            continue
        if prop == "C03":
            if tag.startswith(("editor", "fixture")) and res != data:
                diffs = view_diff(None, None, data, res, spec)
                if not diffs:
                    out.violations.append(dict(base, oracle="an editor-form map is rewritten byte-identically", key=None, diff="bytes differ although nothing the game reads changed", first_diff=first_diff(data, res)))
                for d, key in diffs:
                    out.violations.append(dict(base, oracle="an editor-form map is rewritten byte-identically", key=key, diff=d))
                # every section that differs must be explained by one of the differences found above
                explained = {"mrgn-64-slot-table-expanded": {b"MRGN"}, "upus-recomputed-from-uprp": {b"UPUS"}, "unreachable-weapon-damage-zeroed": {b"UNIS", b"UNIx"},
                             "str-grew-on-unedited-save": {b"STR "}}
                ok_names = set()
                for _, key in diffs:
                    ok_names |= explained.get(key, set())
                if any(key is None for _, key in diffs):
                    ok_names = None     # already reported as an unlisted violation
                ca, cb = refchk.split_chunks(data), refchk.split_chunks(res)
                if ok_names is not None:
                    for k, (n, _, p) in enumerate(ca):
                        if k < len(cb) and cb[k][0] == n and cb[k][2] != p and n not in ok_names:
                            out.violations.append(dict(base, oracle="an editor-form map is rewritten byte-identically", key=None,
                                                       diff="section %r differs although nothing the game reads through it changed" % n, first_diff=first_diff(p, cb[k][2])))
                            break
            if not rl.endswith(" IDEMPOTENT"):
                out.violations.append(dict(base, oracle="a second load/save cycle reproduces the first cycle's output byte for byte", got=rl[-40:], key=classify_nonidempotent(data, spec)))
        if prop == "C02":
            for d, key in view_diff(None, None, data, res, spec):
                out.violations.append(dict(base, oracle="an unedited load/save changes nothing StarCraft reads", diff=d, key=key))
        if prop == "C10":
            for d, key in passthrough_problems(data, res, spec):
                out.violations.append(dict(base, oracle="unmodelled content passes through untouched and in place", diff=d, key=key))
        if prop == "C11":
            probs = refchk.struct_valid(res, spec)
            before = set(refchk.struct_valid(data, spec))
            # `strict:` probes carry a structural defect on purpose: the save must raise or repair it
            # (the usage table is recomputed from the property table on every save, so a stale one in the input excuses nothing)
            new = probs if tag.startswith("strict:") else [p for p in probs if p not in before or p.startswith("UPUS marks")]
            for p in new[:3]:
                out.violations.append(dict(base, oracle="every emitted CHK is structurally valid", problem=p, key=None))
    # de-duplicate violations by key so that every known finding is reported once per run
    return out


def strip_unmodelled(data, spec):
    lay = refchk.layouts_of(spec)
    rf = refchk.ref_fields_of(spec)
    rich = {b"MRGN", b"TRIG", b"UNIS", b"UNIx", b"UPRP", b"SWNM", b"WAV ", b"STR ", b"UPUS", b"VER "}
    chunks = []
    for n, _, p in refchk.split_chunks(data):
        if n not in rich:
            continue
        if n == b"TRIG" and len(p) % lay[b"TRIG"]["trigSize"] == 0:
            f = refchk.fields_of(lay[b"TRIG"], p)
            for t in f["triggers"]:
                for kind, part, idf in (("c", "conds", "_condition_id"), ("a", "acts", "_action_id")):
                    t[part] = [({k: 0 for k in r} if (r[idf] != 0 and r[idf] not in rf[kind]) else r) for r in t[part]]
            p = refchk.build(lay[b"TRIG"], f)
        chunks.append((n, p))
    return refchk.join_chunks(chunks)


def probe_maps(gen, spec):
    """deterministic targeted maps (tag prefix decides which oracles apply: `editor:` = editor form)"""
    import struct

    L = refchk.layouts_of(spec)
    out = []
    gen.force_quiet = True
    base, _ = gen.gen("editor")
    gen.force_quiet = False
    chunks = [(n, p) for n, _, p in refchk.split_chunks(base)]

    def with_sections(repl, extra=()):
        return refchk.join_chunks([(n, repl.get(n, p)) for n, p in chunks] + list(extra))

    za = {f: 0 for f, _ in L[b"TRIG"]["af"]}
    zc = {f: 0 for f, _ in L[b"TRIG"]["cf"]}
    always = dict(zc, _condition_id=22)

    def trig(acts, flags=0):
        return {"conds": ([always] + [zc] * 16)[:16], "acts": (acts + [za] * 64)[:64], "execFlags": flags, "players": [1] + [0] * 26, "cur": 0}

    # 1. a trigger with non-zero execution flags (preserve trigger): kept, or the load/save raises
    tp = refchk.build(L[b"TRIG"], {"triggers": [trig([dict(za, _action_id=1)], flags=4), trig([dict(za, _action_id=2)], flags=0)]})
    out.append(("valid:probe-exec-flags", with_sections({b"TRIG": tp})))
    # 2. two unit-property slots with equal contents, one otherwise identical "create unit with properties"
    #    action on each (same trigger and different triggers): each keeps its own slot
    slot = {"_valid_special_properties_flags": 3, "_valid_unit_properties_flags": 5, "_owner_player": 0, "_hitpoints_percentage": 50, "_shieldpoints_percentage": 0,
            "_energypoints_percentage": 0, "_resource_amount": 0, "_units_in_hangar": 0, "_flags": 1, "_padding": 0}
    zero = {k: 0 for k in slot}
    uprp = refchk.build(L[b"UPRP"], {"records": [slot, zero, slot] + [zero] * 61})
    upus = bytes([1, 0, 1] + [0] * 61)
    cu = lambda s: dict(za, _action_id=11, _first_group=0, _quantifier_or_switch_or_order=1, _action_argument_type=0, _location_id=64, _second_group=s, _flags=4)  # noqa: E731
    tp = refchk.build(L[b"TRIG"], {"triggers": [trig([cu(1), cu(3)]), trig([cu(3)]), trig([cu(1)])]})
    out.append(("editor:probe-twin-cuwp-actions", with_sections({b"TRIG": tp, b"UPRP": uprp, b"UPUS": upus})))
    # 3. unknown sections whose 4 name bytes are valid multi-byte UTF-8 (fewer than 4 characters), invalid
    #    UTF-8, NULs; empty and duplicated
    extra = [(b"\xc3\xa9AB", b"payload-1"), (b"\xe2\x82\xacZ", b""), (b"\xf0\x9f\x98\x80", b"\x00\x01\x02"), (b"\xff\xfeAB", b"xyz"), (b"\xc3\xa9AB", b"again"), (b"A\x00\x00\x00", b"nul")]
    # a recognised section without rich model next to STR (STRx), always present in one map
    extra2 = [(b"STRx", struct.pack("<III", 2, 12, 15) + b"ab\x00c\x00\x00")]
    out.append(("editor:probe-utf8-section-names", with_sections({}, extra + extra2)))
    # 3b. unknown sections whose names differ from a recognised section's only in letter case (`strx`, `STRX`, `trig`,
    #     `Upus`, `wav `, `UNIX`, `mrgn`): they are NOT those sections — unmodelled content, kept under its own name with
    #     its own bytes, in place.  Payloads shaped like the look-alike's, so a reader that confuses them does not even fail.
    strx_like = struct.pack("<III", 2, 12, 15) + b"ab\x00c\x00\x00"
    one_trigger = refchk.build(L[b"TRIG"], {"triggers": [trig([dict(za, _action_id=1)])]})
    lookalikes = [(b"strx", strx_like), (b"STRX", strx_like), (b"trig", one_trigger), (b"Upus", bytes([1, 0] * 32)), (b"wav ", bytes(2048)),
                  (b"UNIX", dict(chunks).get(b"UNIx", dict(chunks).get(b"UNIS", b"")) or b"\x01\x02"), (b"mrgn", bytes(20 * 255))]
    cs = list(chunks)
    cs[2:2] = lookalikes[:3]
    out.append(("editor:probe-section-names-differing-in-letter-case", refchk.join_chunks(cs + lookalikes[3:])))
    # 4. a string id whose offset lies outside the section (at its end / far beyond): the save raises, or the
    #    emitted table is valid -- never a table with an offset outside the section
    strp = dict(chunks)[b"STR "]
    n = struct.unpack_from("<H", strp, 0)[0]
    for what, bad in (("end", len(strp) + 2), ("far", 0xFFF0)):
        # one more id: every existing offset moves by 2 (the table grew by one entry)
        offs = [struct.unpack_from("<H", strp, 2 + 2 * i)[0] + 2 for i in range(n)]
        newp = struct.pack("<H", n + 1) + b"".join(struct.pack("<H", o) for o in offs) + struct.pack("<H", bad) + strp[2 + 2 * n:]
        out.append(("strict:probe-str-offset-outside-" + what, with_sections({b"STR ": newp})))
    # 5. one text stored twice with INTERLEAVED ids (copy A, copy B, copy A again) and referenced, as editors do, by
    #    its last id: an unedited save keeps that reference
    text = b"probe twin text"
    offs = [struct.unpack_from("<H", strp, 2 + 2 * i)[0] + 6 for i in range(n)]
    a_off = len(strp) + 6
    b_off = a_off + len(text) + 1
    newp = struct.pack("<H", n + 3) + b"".join(struct.pack("<H", o) for o in offs + [a_off, b_off, a_off]) + strp[2 + 2 * n:] + text + b"\x00" + text + b"\x00"
    mr = refchk.fields_of(L[b"MRGN"], dict(chunks)[b"MRGN"])
    k = next((i for i, r in enumerate(mr["records"]) if any(r.values())), None)
    if k is not None and len(newp) < 65000:
        mr["records"][k]["_string_id"] = n + 3
        out.append(("editor:probe-interleaved-string-copies", with_sections({b"STR ": newp, b"MRGN": refchk.build(L[b"MRGN"], mr)})))
    # 5b. a location whose name is read from the MIDDLE of another stored string (string-table compression: "probe tail
    #     text" shares the bytes of "xx probe tail text"): the text already exists, an unedited save adds nothing
    whole = b"xx probe tail text"
    offs = [struct.unpack_from("<H", strp, 2 + 2 * i)[0] + 4 for i in range(n)]
    w_off = len(strp) + 4
    newp = struct.pack("<H", n + 2) + b"".join(struct.pack("<H", o) for o in offs + [w_off, w_off + 3]) + strp[2 + 2 * n:] + whole + b"\x00"
    mr = refchk.fields_of(L[b"MRGN"], dict(chunks)[b"MRGN"])
    k = next((i for i, r in enumerate(mr["records"]) if any(r.values())), None)
    if k is not None and len(newp) < 65000:
        mr["records"][k]["_string_id"] = n + 2
        out.append(("editor:probe-name-inside-another-string", with_sections({b"STR ": newp, b"MRGN": refchk.build(L[b"MRGN"], mr)})))
    # 5c. location slots of no extent: unnamed with an elevation word (a zero-sized "ground only" location that a trigger
    #     later centres on a unit), named with word 0, named with a word — each slot is a location, none a placeholder
    mr = refchk.fields_of(L[b"MRGN"], dict(chunks)[b"MRGN"])
    empties = [i for i, r in enumerate(mr["records"]) if not any(r.values()) and i != 63]
    named = next((r["_string_id"] for r in mr["records"] if r["_string_id"]), 0)
    if len(empties) >= 3:
        mr["records"][empties[0]]["_elevation_flags"] = 0b111000
        if named:
            mr["records"][empties[1]]["_string_id"] = named
            mr["records"][empties[2]]["_string_id"] = named
            mr["records"][empties[2]]["_elevation_flags"] = 0b000101
        out.append(("editor:probe-locations-of-no-extent", with_sections({b"MRGN": refchk.build(L[b"MRGN"], mr)})))
    # 6. every weapon some unit carries has its own non-zero base and upgrade damage, and every unit its own hit
    #    points: each value comes back where it was
    repl = {}
    for nm in (b"UNIS", b"UNIx"):
        if nm in dict(chunks):
            u = refchk.fields_of(L[nm], dict(chunks)[nm])
            for arr, f in (("_unit_base_weapon_damages", lambda i: 100 + i), ("_unit_upgrade_weapon_damages", lambda i: 1 + i)):
                u[arr] = [(f(i) if i in refchk.REACHABLE_WEAPONS else 0) for i in range(len(u[arr]))]
            repl[nm] = refchk.build(L[nm], u)
    if repl:
        out.append(("editor:probe-every-weapon-has-damage", with_sections(repl)))
    return out


def first_diff(a, b):
    n = min(len(a), len(b))
    i = next((i for i in range(n) if a[i] != b[i]), n)
    return {"offset": i, "len_before": len(a), "len_after": len(b)}


def witness_maps(gen, spec):
    """one deterministic witness per recorded finding, so each is exercised on every run"""
    import struct

    L = refchk.layouts_of(spec)
    out = []
    base, _ = gen.gen("editor")
    chunks = [(n, p) for n, _, p in refchk.split_chunks(base)]

    def replace(name, fn):
        return refchk.join_chunks([(n, fn(p) if n == name else p) for n, p in chunks])

    # a unit-property slot whose only non-zero field is the owner byte (idempotence)
    def owner_only(p):
        b = bytearray(p)
        b[20 * 40 + 4] = 3
        for k in range(20):
            if k != 4:
                b[20 * 40 + k] = 0
        return bytes(b)
    out.append(("witness:uprp-owner-only", replace(b"UPRP", owner_only)))
    # a trigger with an empty entry inside its action list followed by an unsupported action
    za = {f: 0 for f, _ in L[b"TRIG"]["af"]}
    zc = {f: 0 for f, _ in L[b"TRIG"]["cf"]}
    comment = dict(za, _action_id=47, _text_string_id=1, _time=77)
    victory = dict(za, _action_id=1)
    masked = dict(zc, _condition_id=15, _group=0, _quantity=5, _unit_id=0, _numeric_comparison_operation=0, _mask_flag=0x4353, _location_id=0x00FF00FF)
    always = dict(zc, _condition_id=22)
    trig = {"conds": ([always, masked] + [zc] * 16)[:16], "acts": ([comment, za, za, victory] + [za] * 64)[:64], "execFlags": 0, "players": [1] + [0] * 26, "cur": 0}
    tp = refchk.build(L[b"TRIG"], {"triggers": [trig]})
    out.append(("witness:gap-and-eud-mask", replace(b"TRIG", lambda p: tp)))
    # a recognised section without rich model (STRx) holding a string byte >= 0x80
    out.append(("witness:strx-non-7bit", base + refchk.join_chunks([(b"STRx", struct.pack("<II", 1, 8) + b"\xe9t\xe9\x00")])))
    return out


def classify_nonidempotent(data, spec):
    """no cause of a non-idempotent save is on record (the owner-only unit-property slot was repaired in the
    repository, 21b171a; its witness stays in the corpus)"""
    return None
