#!/usr/bin/env python3
"""print kind and a one-line summary of a replay file"""
import json, sys
for f in sys.argv[1:]:
    d = json.load(open(f))
    v = d.get("violation") or {}
    s = {k: str(x)[:160] for k, x in v.items() if k not in ("hex", "line")} if isinstance(v, dict) else str(v)[:300]
    print(d.get("kind"), "| broken:", [b.get("stage") for b in d.get("broken", [])][:3] if isinstance(d.get("broken"), list) else d.get("broken"), "|", s)
