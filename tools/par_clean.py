#!/usr/bin/env python3
"""Run the registered checks on the UNCHANGED tree for several seeds / tiers in parallel, in private copies of
/verif and clones of /repo (so /verif/evidence and /repo are not touched).  Any VIOLATION here is a false alarm
of the machinery or a genuine defect — both need attention.

usage: par_clean.py <workers> <tier> <seed> [<seed> ...]   [PROPS=C01,C02 env to restrict]
"""
import os
import shutil
import subprocess
import sys
import tempfile
from concurrent.futures import ThreadPoolExecutor
from queue import Queue

VERIF = os.path.dirname(os.path.dirname(os.path.abspath(__file__)))


def sh(cmd, **kw):
    return subprocess.run(cmd, stdout=subprocess.PIPE, stderr=subprocess.STDOUT, **kw)


def main():
    nw, tier, seeds = int(sys.argv[1]), sys.argv[2], sys.argv[3:]
    props = os.environ.get("PROPS", ",".join("C%02d" % i for i in range(1, 20))).split(",")
    root = tempfile.mkdtemp(prefix="parclean_")
    q = Queue()
    try:
        for i in range(nw):
            w = os.path.join(root, "w%d" % i)
            os.makedirs(w)
            sh(["rsync", "-a", "--exclude", "replays", "--exclude", ".git", VERIF + "/", w + "/verif/"])
            sh(["git", "clone", "-q", "/repo", w + "/repo"])
            q.put(w)

        def one(task):
            prop, seed = task
            w = q.get()
            try:
                env = dict(os.environ, RICHCHK_REPO=w + "/repo", VERIF_SEED=seed)
                try:
                    p = sh(["python3", "check.py", prop, "--tier", tier], cwd=w + "/verif", env=env, timeout=4 * 3600)
                    lines = [l for l in p.stdout.decode().split("\n") if l and not l.startswith(("KNOWN-FINDING", "WARNING"))]
                    last = (lines[-1] if lines else "?") + " rc=%d" % p.returncode
                    if "VIOLATION" in last and "replay=" in last:
                        rp = last.split("replay=")[1].split()[0]
                        keep = os.path.join("/tmp", "parclean_" + os.path.basename(rp))
                        shutil.copyfile(rp, keep)
                        last += " kept=" + keep
                except subprocess.TimeoutExpired:
                    last = "TIMEOUT"
                return prop, seed, last
            finally:
                q.put(w)

        tasks = [(p, s) for s in seeds for p in props]
        with ThreadPoolExecutor(max_workers=nw) as ex:
            for prop, seed, last in ex.map(one, tasks):
                print(prop, "seed", seed, tier, "=>", last[:220], flush=True)
    finally:
        shutil.rmtree(root, ignore_errors=True)


if __name__ == "__main__":
    main()
