#!/bin/bash
# round-3 seeds (m5, m6) and regression seeds (r*) against the check of their own property
cd /verif
out=seeded/MATRIX_round3.txt
: > $out.tmp
for d in seeded/C*-m5 seeded/C*-m6 seeded/C*-r*; do
  id=$(basename $d); p=${id%%-*}
  line=$(tools/try_seed.sh $id $p 2>&1 | grep -v "^WARNING" | tail -1)
  case "$line" in
    *no-failing-input-found*) v="detected (proof/correspondence broke; no concrete input found)";;
    *VIOLATION*) v="detected with a concrete replay";;
    *"OK property"*) v="NOT detected";;
    *) v="?? $line";;
  esac
  t=$(python3 -c "import json;d=json.load(open('$d/meta.json'));print(d.get('title','')[:150])")
  echo "$id | $v | $t" >> $out.tmp
done
sort $out.tmp > $out; rm -f $out.tmp
