#!/usr/bin/env python3
"""Run arbitrary patches (e.g. behaviour-preserving refactorings: every VIOLATION is then a false alarm, or
the documented `no-failing-input-found` outcome of a reader that no longer understands the code) against
the quick checks, in parallel, WITHOUT touching /repo or
/verif/evidence: each worker owns a private copy of /verif (with its Lean build) and a private clone of /repo
under a scratch directory and points the pipeline at it with RICHCHK_REPO.

usage: par_patches.py <workers> <out file> <patch dir> [prop ...]   (every *.diff of the directory x every property)
"""
import json
import os
import shutil
import subprocess
import sys
import tempfile
from concurrent.futures import ThreadPoolExecutor
from queue import Queue

VERIF = os.path.dirname(os.path.dirname(os.path.abspath(__file__)))
REPO = os.environ.get("RICHCHK_REPO", "/repo")


def sh(cmd, **kw):
    return subprocess.run(cmd, stdout=subprocess.PIPE, stderr=subprocess.STDOUT, **kw)


def main():
    nw, outp, pdir = int(sys.argv[1]), sys.argv[2], sys.argv[3]
    props = sys.argv[4:] or ["C%02d" % i for i in range(1, 20)]
    ids = [(f, p) for f in sorted(os.listdir(pdir)) if f.endswith(".diff") for p in props]
    # an optional MAP.txt in the patch directory restricts each patch to the listed properties: "h01.diff C01 C19"
    mp = os.path.join(pdir, "MAP.txt")
    if os.path.exists(mp) and not sys.argv[4:]:
        ids = [(l.split()[0], p) for l in open(mp) if l.strip() for p in l.split()[1:]]
    root = tempfile.mkdtemp(prefix="parmatrix_")
    workers = Queue()
    try:
        for i in range(nw):
            w = os.path.join(root, "w%d" % i)
            os.makedirs(w)
            sh(["rsync", "-a", "--exclude", "replays", "--exclude", ".git", VERIF + "/", w + "/verif/"])
            sh(["git", "clone", "-q", REPO, w + "/repo"])
            workers.put(w)

        def one(sid):
            w = workers.get()
            try:
                fname, prop = sid
                repo = w + "/repo"
                a = sh(["git", "-C", repo, "apply", os.path.join(pdir, fname)])
                if a.returncode != 0:
                    return sid, "PATCH DOES NOT APPLY", ""
                env = dict(os.environ, RICHCHK_REPO=repo, VERIF_SEED=os.environ.get("VERIF_SEED", "0"))
                p = sh(["python3", "check.py", prop, "--tier", os.environ.get("TIER", "quick")], cwd=w + "/verif", env=env, timeout=3600)
                lines = [l for l in p.stdout.decode().split("\n") if l and not l.startswith(("KNOWN-FINDING", "WARNING"))]
                last = lines[-1] if lines else "?"
                kind = ""
                if "VIOLATION" in last and "replay=" in last:
                    rp = last.split("replay=")[1].split()[0]
                    try:
                        d = json.load(open(rp))
                        v = d.get("violation") or {}
                        kind = (v.get("oracle") or v.get("what") or str([b.get("stage") for b in d.get("broken", [])]))[:110] if isinstance(v, dict) else ""
                    except Exception:  # noqa: BLE001
                        pass
                sh(["git", "-C", repo, "checkout", "--", "."])
                sh(["git", "-C", repo, "clean", "-qfd", "src"])
                return sid, last, kind
            finally:
                workers.put(w)

        res = {}
        with ThreadPoolExecutor(max_workers=nw) as ex:
            for sid, last, kind in ex.map(one, ids):
                res[sid] = (last, kind)
                print(sid[0], sid[1], "=>", last[:160], flush=True)
        with open(outp, "w") as f:
            for sid in sorted(res):
                last, kind = res[sid]
                f.write("%s | %s | %s | %s\n" % (sid[0], sid[1], last[:120], kind))
    finally:
        shutil.rmtree(root, ignore_errors=True)


if __name__ == "__main__":
    main()
