#!/usr/bin/env python3
"""Write one prompt per property for a round of seeding sub-agents: each gets the text of ONE property, its own
scratch clone, and the titles of the changes earlier rounds produced for that property (so that it looks
elsewhere) — nothing about the checks.   usage: make_seed_prompts.py <round dir, e.g. /tmp/seed5> <k1> <k2>"""
import glob
import json
import os
import sys

root, k1, k2 = sys.argv[1], sys.argv[2], sys.argv[3]
here = os.path.dirname(os.path.dirname(os.path.abspath(__file__)))
props = {}
for l in open(os.path.join(here, "properties.jsonl")):
    d = json.loads(l)
    props[d["id"]] = d
tmpl = '''You are helping to test a verification tool by producing realistic BUGS ("seeded changes") in a Python library, in a scratch copy only.

Your scratch copy of the library (sethmachine/richchk, a pure-Python codec/editor for StarCraft CHK map data with a two-layer design: bytes <-> decoded sections <-> rich editable objects) is the git clone at {wt}. Work ONLY inside {wt}. Never touch /repo or /verif (do not read, list or write anything under /verif; do not modify /repo). Python to use: /venv/bin/python with PYTHONPATH={wt}/src .

The property you should break:

  ID: {id}
  Title: {title}
  Statement: {statement}
  Quantifier: {quant}
  Why the existing tests cannot settle it: {why}
  Code it is anchored in: {files}

Earlier rounds already produced the changes listed below for this property; yours must be DIFFERENT in mechanism, in the file touched where possible, and in the inputs needed (do not redo or vary any of them). Look for places the earlier rounds did not touch: shared helpers and utilities, model classes (equality, hashing, defaults, properties), lookups and caches, rarely used sections / argument types / code paths, interactions between two operations, behaviour on a second call with the same object, optional arguments, platform / path handling, numeric edge values, error paths and what they leave behind, defaults of dataclass fields, the order in which sections or entries are visited, string encodings, interactions between two sections (one rebuilt from another), and input shapes real map editors produce but the test fixtures do not contain.
{previous}

Task: produce TWO different, independent changes to the library source (under {wt}/src only), each of which
  (a) looks like something a real contributor could plausibly commit (an optimisation, a refactor, a "simplification", an off-by-one, a wrong variable, a misplaced check, a too-eager cache, a changed default, a copy-paste slip, ...) -- no sabotage comments, no dead giveaways, small diff;
  (b) makes the property FALSE for some realistic inputs / histories, preferably a corner that is easy to overlook -- and different in mechanism from each other;
  (c) still passes the library's whole existing test suite: `cd {wt} && PYTHONPATH={wt}/src /venv/bin/python -m pytest -q -p no:cacheprovider --timeout=900 --continue-on-collection-errors` must report the same result as on the unchanged tree (200 passed, 1 error -- the 1 collection error in test/io/mpq/starcraft_mpq_io_test.py is pre-existing; check the unchanged tree first);
  (d) still imports and runs (no syntax errors, no crashes on the library's normal paths).

For each change k in ({k1}, {k2}) write into {wt}/_out/mut<k>/ :
  - patch.diff : `git diff -- src` of exactly that one change against the clean HEAD (must apply with `git apply` on a clean checkout);
  - demo.py : a standalone script (uses only the library through PYTHONPATH and the files under test/resources, located relative to the script as ../../test/resources) that exits 0 on the unchanged tree and exits 1 with a short message on the changed tree, demonstrating on a concrete input that the PROPERTY (as stated above) is violated; it must judge the property itself (e.g. by reading bytes independently), not merely detect your edit;
  - meta.json : {{"property": "{id}", "title": ..., "what_it_breaks": ..., "needs_to_manifest": (which inputs / histories show it and which do not), "files_changed": [...], "how_verified": (commands you ran and what they printed)}}.
After writing each patch.diff, restore the clean tree (`git checkout -- src`) before starting the next change, and verify each patch from scratch: apply on clean HEAD -> test suite result unchanged -> demo exits 1; `git checkout -- src` -> demo exits 0.

Note (Linux only, unrelated to your task): the library's ctypes struct StormLibFileSearchResult has a 260-byte name buffer while the bundled libstorm.so writes up to 1024 bytes, so code paths that search files inside an MPQ archive can crash at random; if your demo needs such paths, enlarge that struct inside the demo process. Keep temporary files of your demo inside a tempfile.TemporaryDirectory and remove them.

Leave the clone clean (`git status` shows only _out/) when you finish. Report in your final message, for each change: the one-line title, the files changed, and the exact inputs needed for it to show.'''
for pid, d in props.items():
    prev = []
    for m in sorted(glob.glob(os.path.join(here, "seeded", "%s-m*" % pid, "meta.json"))):
        mm = json.load(open(m))
        prev.append("  - " + mm.get("title", "")[:200] + "  [" + ", ".join(x.split("/")[-1] for x in mm.get("files_changed", [])[:2]) + "]")
    wt = os.path.join(root, pid)
    open(os.path.join(root, "%s.prompt" % pid), "w").write(tmpl.format(wt=wt, id=pid, title=d["title"], statement=d["statement"], quant=d["quantifier"]["text"], why=d["why_tests_cant"], files=", ".join(d["anchors"]["files"]), previous="\n".join(prev), k1=k1, k2=k2))
print("ok")
