#!/bin/bash
# run every seeded change in /verif/seeded against the check of its own property; writes seeded/MATRIX.txt
cd /verif
out=seeded/MATRIX.txt
: > $out.tmp
for d in seeded/C*-m*; do
  id=$(basename $d); p=${id%%-*}
  line=$(tools/try_seed.sh $id $p 2>&1 | grep -v "^WARNING" | tail -1)
  case "$line" in
    *no-failing-input-found*) v="detected (proof/correspondence broke; no concrete input found)";;
    *VIOLATION*) v="detected with a concrete replay";;
    *"OK property"*) v="NOT detected";;
    *) v="?? $line";;
  esac
  t=$(python3 -c "import json;d=json.load(open('$d/meta.json'));print((d.get('status','')[:9]=='obsolete' and '[obsolete] ' or '')+d.get('title','')[:150])")
  echo "$id | $v | $t" >> $out.tmp
done
mv $out.tmp $out
