#!/bin/bash
# run every registered check (quick by default) on the current /repo tree; prints one line per property
cd /verif
for p in $(python3 -c "import json;print(' '.join(c['property_id'] for c in json.load(open('MANIFEST.json'))['checks']))"); do
  s=$(date +%s)
  out=$(VERIF_SEED=${VERIF_SEED:-0} python3 check.py $p --tier ${TIER:-quick} 2>&1 | grep -v "^WARNING")
  rc=$?
  echo "$p [$(( $(date +%s) - s ))s] $(echo "$out" | grep -c '^KNOWN-FINDING') known; $(echo "$out" | grep -v '^KNOWN-FINDING' | tail -1 | cut -c1-200)"
done
