#!/bin/bash
# usage: try_seed.sh <seed-id> <prop> [<prop> ...]   -- applies the seeded change to /repo, runs the quick checks, reverts.
# evidence/ is saved and restored so that committed evidence always comes from the unchanged tree.
id=$1; shift
cd /repo || exit 2
git diff --quiet || { echo "repo dirty"; exit 2; }
bak=$(mktemp -d /tmp/evbak.XXXXXX); cp -a /verif/evidence/. $bak/
git apply /verif/seeded/$id/patch.diff || { echo "apply failed"; rm -rf $bak; exit 2; }
for p in "$@"; do
  out=$(cd /verif && VERIF_SEED=${VERIF_SEED:-0} python3 check.py $p --tier ${TIER:-quick} 2>&1 | grep -v "^KNOWN-FINDING\|^WARNING" | tail -2)
  echo "[$id] $p => $(echo "$out" | tr '\n' ' ' | cut -c1-300)"
done
git -C /repo checkout -- . && git -C /repo clean -qfd src
rm -rf /verif/evidence/*.json; cp -a $bak/. /verif/evidence/; rm -rf $bak
