#!/bin/bash
# Verify every candidate seeded change produced by the sub-agents in a scratch worktree:
#   patch applies to /repo HEAD; suite still 200 passed with it; demo fails with it; demo passes without it.
# Accepted seeds are copied to /verif/seeded/<Cxx>-m<i>/ (patch.diff, demo.py, meta.json + verified.json)
set -u
W=/tmp/vseed_wt_$$
rm -rf $W
git clone -q /repo $W || exit 1      # committed HEAD only: independent of whatever is applied in /repo's working tree
SEED_ROOT=${SEED_ROOT:-/tmp/seed}
for d in $SEED_ROOT/C*/_out/mut*; do
  prop=$(echo $d | sed 's#.*/\(C[0-9][0-9]\)/_out/.*#\1#'); i=$(basename $d | sed 's/mut//')
  id="$prop-m$i"
  if [ -n "${ONLY:-}" ] && ! echo " $ONLY " | grep -q " $prop "; then continue; fi
  [ -f $d/patch.diff ] || { echo "$id: no patch"; continue; }
  [ -d /verif/seeded/$id ] && [ -z "${FORCE:-}" ] && { echo "$id: already accepted"; continue; }
  demo=$d/demo.py; [ -f $demo ] || demo=$d/demo_test.py
  cd $W && git checkout -q -- . && git clean -qfd
  if ! git apply --check $d/patch.diff 2>/dev/null; then echo "$id: patch does not apply"; continue; fi
  # clean run of the demo
  # the demo keeps the place it had in the agent's clone (<clone>/_out/mut<i>/demo.py): some locate test/resources relative to it
  mkdir -p $W/_out/mut$i; cp $demo $W/_out/mut$i/demo.py
  PYTHONPATH=$W/src timeout 900 /venv/bin/python _out/mut$i/demo.py >/tmp/vseed_clean_$$.log 2>&1; rc_clean=$?
  git apply $d/patch.diff
  PYTHONPATH=$W/src timeout 900 /venv/bin/python _out/mut$i/demo.py >/tmp/vseed_mut_$$.log 2>&1; rc_mut=$?
  tests=$(PYTHONPATH=$W/src timeout 900 /venv/bin/python -m pytest -q -p no:cacheprovider --timeout=900 --continue-on-collection-errors 2>&1 | tail -1)
  rm -rf $W/_out
  ok=no
  if [ $rc_clean -eq 0 ] && [ $rc_mut -ne 0 ] && echo "$tests" | grep -q "200 passed"; then ok=yes; fi
  echo "$id: clean_rc=$rc_clean mut_rc=$rc_mut tests='$tests' accepted=$ok"
  if [ $ok = yes ]; then
    mkdir -p /verif/seeded/$id
    cp $d/patch.diff /verif/seeded/$id/patch.diff
    cp $demo /verif/seeded/$id/$(basename $demo)
    python3 - "$d/meta.json" "/verif/seeded/$id/meta.json" "$prop" "$rc_clean" "$rc_mut" "$tests" <<'PY'
import json,sys
src,dst,prop,rc_clean,rc_mut,tests=sys.argv[1:7]
try: m=json.load(open(src))
except Exception: m={}
m["property"]=prop
m["verified_by_me"]={"worktree":"scratch git worktree of /repo HEAD under /tmp (removed afterwards)","demo_exit_clean":int(rc_clean),"demo_exit_with_patch":int(rc_mut),"test_suite_with_patch":tests,
  "ran":["git apply --check patch.diff","PYTHONPATH=<wt>/src /venv/bin/python demo.py (clean, then patched)","PYTHONPATH=<wt>/src /venv/bin/python -m pytest -q -p no:cacheprovider --continue-on-collection-errors (patched)"]}
json.dump(m,open(dst,"w"),indent=1)
PY
  fi
done
cd / && rm -rf $W
