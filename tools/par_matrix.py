#!/usr/bin/env python3
"""Run every seeded change against the quick check of its own property, in parallel, WITHOUT touching /repo or
/verif/evidence: each worker owns a private copy of /verif (with its Lean build) and a private clone of /repo
under a scratch directory and points the pipeline at it with RICHCHK_REPO.

usage: par_matrix.py <workers> <out file> [seed-id ...]      (default: all seeds)
"""
import json
import os
import shutil
import subprocess
import sys
import tempfile
from concurrent.futures import ThreadPoolExecutor
from queue import Queue

VERIF = os.path.dirname(os.path.dirname(os.path.abspath(__file__)))
REPO = os.environ.get("RICHCHK_REPO", "/repo")


def sh(cmd, **kw):
    return subprocess.run(cmd, stdout=subprocess.PIPE, stderr=subprocess.STDOUT, **kw)


def main():
    nw, outp = int(sys.argv[1]), sys.argv[2]
    ids = sys.argv[3:] or sorted(d for d in os.listdir(os.path.join(VERIF, "seeded")) if os.path.isfile(os.path.join(VERIF, "seeded", d, "patch.diff")))
    root = tempfile.mkdtemp(prefix="parmatrix_")
    workers = Queue()
    try:
        for i in range(nw):
            w = os.path.join(root, "w%d" % i)
            os.makedirs(w)
            sh(["rsync", "-a", "--exclude", "replays", "--exclude", ".git", VERIF + "/", w + "/verif/"])
            sh(["git", "clone", "-q", REPO, w + "/repo"])
            workers.put(w)

        def one(sid):
            w = workers.get()
            try:
                prop = sid.split("-")[0]
                repo = w + "/repo"
                a = sh(["git", "-C", repo, "apply", os.path.join(VERIF, "seeded", sid, "patch.diff")])
                if a.returncode != 0:
                    return sid, "PATCH DOES NOT APPLY", ""
                env = dict(os.environ, RICHCHK_REPO=repo, VERIF_SEED=os.environ.get("VERIF_SEED", "0"))
                p = sh(["python3", "check.py", prop, "--tier", os.environ.get("TIER", "quick")], cwd=w + "/verif", env=env, timeout=3600)
                lines = [l for l in p.stdout.decode().split("\n") if l and not l.startswith(("KNOWN-FINDING", "WARNING"))]
                last = lines[-1] if lines else "?"
                kind = ""
                if "VIOLATION" in last and "replay=" in last:
                    rp = last.split("replay=")[1].split()[0]
                    try:
                        d = json.load(open(rp))
                        v = d.get("violation") or {}
                        kind = (v.get("oracle") or v.get("what") or str([b.get("stage") for b in d.get("broken", [])]))[:110] if isinstance(v, dict) else ""
                    except Exception:  # noqa: BLE001
                        pass
                sh(["git", "-C", repo, "checkout", "--", "."])
                sh(["git", "-C", repo, "clean", "-qfd", "src"])
                return sid, last, kind
            finally:
                workers.put(w)

        res = {}
        with ThreadPoolExecutor(max_workers=nw) as ex:
            for sid, last, kind in ex.map(one, ids):
                res[sid] = (last, kind)
                print(sid, "=>", last[:160], flush=True)
        with open(outp, "w") as f:
            for sid in sorted(res):
                last, kind = res[sid]
                if "no-failing-input-found" in last:
                    v = "detected (proof/translation/correspondence broke; no concrete input found)"
                elif "VIOLATION" in last:
                    v = "detected with a concrete replay"
                elif last.startswith("OK property"):
                    v = "NOT detected by its own property's check"
                else:
                    v = "?? " + last[:80]
                t = json.load(open(os.path.join(VERIF, "seeded", sid, "meta.json"))).get("title", "")[:140]
                f.write("%s | %s | %s | %s\n" % (sid, v, kind, t))
    finally:
        shutil.rmtree(root, ignore_errors=True)


if __name__ == "__main__":
    main()
