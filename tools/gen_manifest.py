#!/usr/bin/env python3
"""Regenerates MANIFEST.json from the table below (kept valid at all times)."""
import json, os, sys
sys.path.insert(0, os.path.dirname(os.path.dirname(os.path.abspath(__file__))))
VERIF = os.path.dirname(os.path.dirname(os.path.abspath(__file__)))

CHECKS = {
 "C01": ("proof of byte-exact round trip for every well-formed CHK (Lean theorem c01_roundtrip over the chunk-loop model and the layouts regenerated from the transcoder source; instantiation obligations by decide +kernel); model tied to the code by the layout translator and an rt/dec correspondence run",
         "§5 C01", "Lean 4 proof (induction over chunks) + ast translator of struct layouts + differential correspondence"),
 "C04": ("proof over the encoder model, for every authored entry and context: position i of the record written for an authored condition/action holds the encoded flags, the number its codec computes for the argument the transcoder table assigns to field i, or zero (c04_entry_fields); the table equals the hand-transcribed specification table (C05); a written string id resolves to exactly the authored text, a unit-property id to a stored equal set, a location id to that location's slot; authored triggers are emitted in order after the existing ones with exactly the authored players; hit points are floor(256*value); partial: composition with the byte layer (C01/C06) and the rebuilders is validated by byte-comparing the `edit` model with the real editors + RichChkIo on generated histories and by the independent reader (every authored value in its specification field, reload equality)",
         "§5 C04", "Lean 4 proof (keyed-lookup induction over the transcoder table rows) + byte-exact differential correspondence of edit histories + independent reader oracle"),
 "C07": ("proof over the editor and rebuilder models: adding triggers leaves every other section unchanged and the old triggers a prefix; upserting a unit leaves every other unit's setting unchanged in order; added WAV entries take free slots after the existing entries; section replacement is in place; the location and unit-property rebuilds keep the existing table as a prefix and, composed with the C09 soundness theorem, every pre-existing slot resolves to the same entry and is written with the same record after the rebuild (C08: existing string ids keep their text); pass-through sections stay in place (C10); partial: the composition over whole histories with save+reload is validated by byte-comparing the `edit` model with the real code and by the independent reader's slot-by-slot comparison against the unedited save; a switch the stored table names keeps its name and slot through any save, for every iteration order (c07_named_switch_keeps_name, an invariant over the SWNM placement loop)",
         "§5 C07", "Lean 4 proof (prefix / filter lemmas over the editor models) + byte-exact differential correspondence of edit histories + independent slot-by-slot oracle"),
 "C05": ("proof by complete enumeration (decide +kernel) that each of the 51+22 transcoder rows regenerated from the source agrees with the hand-transcribed specification table: own number and name, every argument read from and written to exactly its specification field through the same codec, zero elsewhere, no shared fields; plus the generic lemma that the table-driven record holds each argument in its field; tied to the real transcoders by a sentinel probe",
         "§5 C05", "Lean 4 proof over the generated transcoder table (finite domain = the registry) + ast translator + sentinel-probe correspondence"),
 "C06": ("proof that every decoded field is the little-endian integer at the offset obtained from the specification's layout, in both directions; the layouts read off decode and _encode are proved equal to the hand-transcribed spec table (decide +kernel), field names included",
         "§5 C06", "Lean 4 proof (offset lemmas) + generated-layout = spec-layout obligation + independent spec reader as oracle"),
 "C08": ("proof, for every well-formed STR/STRx table (any offsets: shared, unsorted, interior; unreferenced entries; empty) and every request list of 7-bit strings, that the editor model succeeds, keeps every existing id's text, gives every requested string an id resolving to exactly it, appends only the not-yet-resolvable requests once each, yields a well-formed table, is idempotent, fails loudly on offset overflow, and that STR->STRx preserves the id->text map; model tied to both editors and the generator by a correspondence run with an independent offset reader",
         "§5 C08", "Lean 4 proof (induction on string data / request list) + hand model of the editors tied by differential correspondence"),
 "C09": ("proof about the allocator shared by the four slot tables, for every occupancy, batch and iteration order: slots handed out are in range, were empty, pairwise distinct, never the reserved Anywhere slot for index-less objects; carried free indices are kept; a call needing no new slot never fails; exhaustion and out-of-range indices fail loudly; WAV paths are requested once; configuration (ranges, reserved id, raise/skip) regenerated from the source and proved equal to the format's; switch numbers handed to switches that carried none are pairwise different and never the number of a switch that carries one (c09_new_switch_numbers_fresh)",
         "§5 C09", "Lean 4 proof (state-machine invariant by induction over the request list) + ast translator of allocator configuration + differential correspondence with observed set order + whole saves of edited maps read back by an independent reader"),
 "C13": ("proof over an alias model: every function body of the operation layers (948 read, 56 containing an in-place mutation) is abstracted by the translator into a small heap IR (allocate / shallow copy / alias / element / mutate) regenerated on every run; the kernel evaluates a type check on every body (decide +kernel) and a soundness theorem, proved once for all programs and all heaps, says that a body passing the check changes no container cell that existed before the call, along every execution order; partial: the reading of Python into the IR is trusted (rules listed in DESIGN.md) and is tied by a deep-snapshot harness over every public method of the editor / io / transcoder layers, alone and in composed sequences",
         "§5 C13", "Lean 4 proof (soundness of a flow-insensitive alias type system, by invariant over executions) + ast translator of mutation/alias structure + deep-snapshot differential run"),
 "C14": ("proof that the allocator's outcome is invariant under permutation of the batch (List.Perm): both fail or both succeed, same free list, same occupied set, same set of new slots; whole-save determinism modulo new-slot numbering is validated across interpreters with different hash seeds through an independent slot-renumbering-invariant digest (partial: the rewrite of references and string collection order are checked by that run, not proved); the name a stored switch carries is the same under any two iteration orders (c14_named_switch_order_free); rebuilds that add nothing are order-free (c14_location_rebuild_order_free, c14_unit_property_rebuild_order_free)",
         "§5 C14", "Lean 4 proof (permutation invariance via an order-free characterisation) + cross-process differential run"),
 "C02": ("partial proof: for all inputs, every string reference (any id: shared, not-last, out of range, 0) is written back with an id resolving to the same text; sections keep their positions; flag words keep their defined bits and hit points are exact (C12); the whole-cycle preservation statement is kept visible (C02Full) but not proved and is false on the current tree for the recorded findings; the executable cycle model is byte-compared with the real code on every generated map and the game view is compared by an independent specification-driven reader; for EVERY 255-slot MRGN and every 64-record UPRP, slot i of the output is empty exactly when slot i of the input is and otherwise holds the same coordinates / percentages / amounts, the flag words restricted to the defined bits and a name id resolving to the same text (c02_mrgn_values_kept, c02_uprp_values_kept_any)",
         "§5 C02", "Lean 4 lemmas about the rich-layer model (partial) + byte-exact differential correspondence of the whole cycle + independent reader oracle"),
 "C03": ("partial proof: byte-layer fixed point for every input (C19), string references are fixed points after one cycle, pass-through sections are fixed points, and the MRGN / UPRP / WAV section transcoders are proved to be the identity on editor-form tables (generic theorem + instantiation for the regenerated configuration); full identity/idempotence statements kept visible (C03Identity, C03Idempotent), false on the current tree for the recorded findings; byte identity of editor-form maps and idempotence of every map are checked on the real code and the model on every run; section-level idempotence of the MRGN / UPRP / WAV save is proved for EVERY input table (c03_*_section_idempotent)",
         "§5 C03", "Lean 4 lemmas (partial) + byte-exact differential correspondence + byte-identity / second-cycle oracle"),
 "C10": ("proof over the rich-layer model, for every decoded section list, configuration and iteration order: every pass-through section (unknown, enum-only, recognised without rich model) is emitted identical at its original index, rebuilt/added sections are appended after, and every trigger entry of an unsupported type is carried as a raw record, written back verbatim, and keeps its position in every list that has no empty entry before its end; the remaining case (gap compaction) and the UPUS recomputation are recorded findings",
         "§5 C10", "Lean 4 proof (structural induction over the section list / entry list) + differential correspondence + in-place oracle by the independent reader"),
 "C11": ("proof over the encoder model, for every rich content: an emitted trigger has exactly 16 conditions / 64 actions / 27 player bytes or the call raises (oversize lists raise); MRGN, UPRP, UPUS and WAV tables are emitted at their mandated lengths; a written string id is 0 or resolves to exactly the string, a missing string raises KeyError; a written unit-property id is the slot of a stored equal set; entry i of the emitted UPUS is 1 exactly when a set is stored at slot i+1, and a set at an out-of-range slot raises; partial: the whole-file statement (section order, STR offsets in bounds) rests on C08/C09 theorems and is validated by the independent structural validator on every emitted file, including authored degenerate content; the rebuilt switch table has exactly 256 entries and every switch number written is a position of it; a location number is written only if the emitted table holds that location at that index; no two entries of the emitted location table, and no two sets of the emitted unit-property table, share a slot (composition of the rebuilds with C09 soundness)",
         "§5 C11", "Lean 4 proof of encoder shape lemmas + differential correspondence + independent structural validator"),
 "C12": ("proof, for every flag codec / enumeration / the AI-script and hit-point codecs as regenerated from the source, of number->rich->number and rich->number->rich exactness on the WHOLE domain (statements over all natural numbers, proved by induction on bits / membership, not by enumeration), injectivity, and rejection of every non-member number; plus exhaustive correspondence of the model with the real helpers",
         "§5 C12", "Lean 4 proof (bit induction, finite-table obligations by decide +kernel) + ast translator of bit layouts/enums + exhaustive differential correspondence"),
 "C15": ("proof over an abstract file system that each file-writing entry point, as modelled from its regenerated call sequence, refuses with FileExistsError and leaves the file system unchanged when the destination exists without opt-in (for every file system), touches only the destination with opt-in, that every overwrite flag defaults to refuse and that the exists-guard precedes the first write; partial: the real file system and StormLib are exercised by the harness, not proved",
         "§5 C15", "Lean 4 proof over an abstract FS + ast translator of defaults and call sequences + real-FS differential run"),
 "C16": ("proof by complete enumeration in the kernel of every single fault (before / after / part-way) at every operation of the modelled save, audio-import and read procedures, for destination absent and pre-existing, flag on/off, 0..3 audio members, encoding ok/raising: base unchanged, destination previous-or-complete, no work files; the call sequence is regenerated from the source and proved equal to the modelled one; partial: StormLib and the OS are hypotheses, validated by injecting a failure into every real call",
         "§5 C16", "Lean 4 proof by enumeration of the fault space of a step-machine model + ast translator of the step list + real fault injection into every StormLib / file-system call"),
 "C17": ("proof under explicit StormLib hypotheses (archive = member map, put replaces one member) that the stored scenario is the encoder's bytes, other members are preserved, imported files are stored under their canonical member with identical bytes, and that the WAV duration is floor(1000*frames/rate); partial: StormLib/mutagen are trusted and validated on the corpus archives",
         "§5 C17", "Lean 4 proof over a member-map archive model + real archive round-trip run"),
 "C18": ("proof by complete enumeration in the kernel (decide +kernel, split over 16 files): for every one of the package's modules taken as the first import, the import-execution model over the regenerated import graph terminates without ImportError and every loaded registry holds exactly the model classes' ids, each registered once; partial: CPython's import machinery is modelled (tied by importing each module in a fresh interpreter)",
         "§5 C18", "Lean 4 proof by complete enumeration over the generated import graph + ast translator + exhaustive fresh-interpreter correspondence"),
 "C19": ("proof that the decoder model is total (well-founded recursion on the remaining input) and that every accepted input re-encodes to bytes that decode to the same model (c19_writable, for all byte strings); tied to the code by correspondence on a malformed-input stream",
         "§5 C19", "Lean 4 proof (termination by well-founded recursion; stability by strong induction) + differential correspondence on malformed inputs"),
}
NOT_YET = {}

def main():
    import check
    checks = []
    for pid in sorted(check.PROPS):
        text, ref, tech = CHECKS[pid]
        checks.append({
            "property_id": pid,
            "quick_cmd": "python3 check.py %s --tier quick" % pid,
            "thorough_cmd": "python3 check.py %s --tier thorough" % pid,
            "evidence_file": "evidence/%s.json" % pid,
            "replay_cmd_template": "python3 check.py %s --replay {path}" % pid,
            "engine": "lean4-richchk-model",
            "level_claimed": {"category": "proof", "text": text, "design_ref": ref},
            "level_note": "Trusted: Lean kernel; axioms propext/Quot.sound/Classical.choice only (audited each run); the ast translator and the correspondence harness (sampling); CPython struct/bytes semantics on a little-endian host; the hand-transcribed Scenario.chk tables in lean/RichchkModel/Spec. Theorems are about the model; the model is re-tied to /repo's working tree on every run.",
            "technique": tech,
        })
    props = [json.loads(l)["id"] for l in open(os.path.join(VERIF, "properties.jsonl"))]
    na = [{"property_id": p, "reason": NOT_YET.get(p, "check under construction in this round (model/theorems not yet committed); no claim made yet")} for p in props if p not in check.PROPS]
    m = {
        "version": 1,
        "setup_cmd": "python3 check.py --setup",
        "hooks": {
            "guard": "RICHCHK_VERIF",
            "enable": "no source hooks: the harness drives the real code in-process under /venv/bin/python with PYTHONPATH=/repo/src and monkeypatches there; nothing in /repo is guarded",
            "baseline_off_cmd": "cd /repo && env -u RICHCHK_VERIF /venv/bin/python -m pytest -ra -q -p no:cacheprovider --timeout=900 --continue-on-collection-errors",
            "source_commits": [],
            "add_only": True,
        },
        "engines": [{"name": "lean4-richchk-model", "path": "lean", "serves_properties": sorted(check.PROPS), "kind_free_text": "Lean 4 model + theorems (lake), ast translator (translator/), line-protocol driver (lean/Driver.lean) and Python correspondence harness (harness/)"}],
        "checks": checks,
        "notes": "fix: commits in /repo are listed in known_findings.txt (fixed: entries).",
        "not_applicable": na,
    }
    json.dump(m, open(os.path.join(VERIF, "MANIFEST.json"), "w"), indent=1)
    print("manifest:", len(checks), "checks,", len(na), "not yet claimed")

if __name__ == "__main__":
    main()
