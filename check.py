#!/usr/bin/env python3
"""Entry point of every registered check.

    python3 check.py --setup
    python3 check.py Cxx --tier quick|thorough
    python3 check.py Cxx --replay <path>

Pipeline (DESIGN.md §2.1): regenerate the generated Lean from /repo's working tree ->
lake build the property's theorems + axiom audit -> correspondence run (model driver vs the
real code) with the property's oracle on every case -> verdict.  A broken proof /
translation / correspondence is not by itself a violation: the oracle searches the real
code for a failing input; the VIOLATION line carries that replay, or ends with
`no-failing-input-found`.
"""
import argparse
import fcntl
import hashlib
import json
import os
import re
import subprocess
import sys
import time

VERIF = os.path.dirname(os.path.abspath(__file__))
LEAN = os.path.join(VERIF, "lean")
BUILD = os.path.join(VERIF, "build")
GEN = os.path.join(LEAN, "RichchkModel", "Generated")
EVID = os.path.join(VERIF, "evidence")
REPLAYS = os.path.join(VERIF, "replays")
VENV_PY = "/venv/bin/python"
ALLOWED_AXIOMS = {"propext", "Quot.sound", "Classical.choice"}
FORBIDDEN = re.compile(r"\bsorry\b|\badmit\b|^\s*axiom\s|native_decide|bv_decide|implemented_by|\bunsafe\s|maxHeartbeats\s+0")

sys.path.insert(0, os.path.join(VERIF, "translator"))

# --------------------------------------------------------------------------- per-property config
TRUSTED_COMMON = [
    "Lean 4.33.0 kernel (lake build); axioms limited to propext, Quot.sound, Classical.choice (audited by #print axioms per theorem); no sorry/native_decide/bv_decide/own axioms (grep)",
    "translator /verif/translator (restricted-subset ast reader, regenerates lean/RichchkModel/Generated on every run)",
    "correspondence harness /verif/harness (differential run of the model driver against the real code; coverage is sampling, reported below)",
    "CPython semantics of struct/bytes/int on a little-endian host; utf-8+surrogateescape round trip of section names",
]

PROPS = {
    "C01": {
        "targets": ["RichchkModel.Props.C01"],
        "harness": "bytelayer",
        "theorems_file": "RichchkModel/Props/C01.lean",
        "namespace": "Richchk.Props.C01",
        "trusted": ["hand model of the chunk loop / STR string loop (Model/Chunk.lean, Model/Section.lean), tied by the rt/dec correspondence"],
    },
    "C04": {
        "targets": ["RichchkModel.Props.C04"],
        "harness": "edit_h",
        "theorems_file": "RichchkModel/Props/C04.lean",
        "namespace": "Richchk.Props.C04",
        "trusted": [
            "hand model Model/Rich.lean + Model/RichEnc.lean + Model/RichEdit.lean (rich decode/encode, rebuilders, editors, save+reload), tied by byte-comparing `edit` / `cycle` with the real code on every generated history",
            "independent reader harness/refchk.py driven by the hand-transcribed specification tables as the oracle for what the saved file holds",
            "the harness's construction of library objects from the abstract history (harness/edit_h.py Real), cross-checked by the reload-equality oracle",
        ],
    },
    "C05": {
        "targets": ["RichchkModel.Props.C05"],
        "harness": "trig_h",
        "theorems_file": "RichchkModel/Props/C05.lean",
        "namespace": "Richchk.Props.C05",
        "trusted": [
            "Spec/TrigArgs.lean: hand transcription of the Scenario.chk action/condition argument tables (numbers, names, argument->field)",
            "the translator's reading of each _decode/_encode as a keyword-constructed return (validated by the sentinel probe of the real transcoders)",
        ],
    },
    "C06": {
        "targets": ["RichchkModel.Props.C06"],
        "harness": "bytelayer",
        "theorems_file": "RichchkModel/Props/C06.lean",
        "namespace": "Richchk.Props.C06",
        "trusted": ["Spec/Layouts.lean: hand transcription of the Scenario.chk section layouts"],
    },
    "C07": {
        "targets": ["RichchkModel.Props.C07"],
        "harness": "edit_h",
        "theorems_file": "RichchkModel/Props/C07.lean",
        "namespace": "Richchk.Props.C07",
        "trusted": [
            "hand model Model/Rich.lean + Model/RichEnc.lean + Model/RichEdit.lean (rich decode/encode, rebuilders, editors, save+reload), tied by byte-comparing `edit` / `cycle` with the real code on every generated history",
            "independent reader harness/refchk.py driven by the hand-transcribed specification tables as the oracle for what the saved file holds",
            "the harness's construction of library objects from the abstract history (harness/edit_h.py Real), cross-checked by the reload-equality oracle",
        ],
    },
    "C08": {
        "targets": ["RichchkModel.Props.C08"],
        "harness": "str_h",
        "theorems_file": "RichchkModel/Props/C08.lean",
        "namespace": "Richchk.Props.C08",
        "trusted": ["hand model Model/StrEdit.lean of the two editors and the generator, tied by the addstr/tostrx correspondence; Python str == its ASCII bytes for 7-bit text"],
    },
    "C09": {
        "targets": ["RichchkModel.Props.C09"],
        "harness": "alloc_h",
        "theorems_file": "RichchkModel/Props/C09.lean",
        "namespace": "Richchk.Props.C09",
        "trusted": [
            "Spec/Consts.lean: slot ranges of the format and 'Anywhere is location 64'",
            "hand model Model/Alloc.lean + Model/Editors.lean of the four editors over one allocator, tied by the alloc correspondence with the OBSERVED set iteration order; Python set/dict membership by (hash, ==) with no collisions of distinct keys",
        ],
    },
    "C13": {
        "targets": ["RichchkModel.Props.C13"],
        "harness": "effects_h",
        "theorems_file": "RichchkModel/Props/C13.lean",
        "namespace": "Richchk.Props.C13",
        "trusted": [
            "translator/tr_effects.py: the reading of Python function bodies into the alias IR (what allocates, what copies shallowly, what mutates; reaching-definition versioning of locals; inlining of private same-file helpers and of uniquely named small accessors; class-level memoisation caches and functools.cached_property excluded; calls leaving the package assumed not to mutate their arguments); frozen dataclasses are immutable records",
            "hand model Model/Alias.lean (heap of container cells, flow-insensitive executions); soundness of the check is proved (Lemmas/AliasSound.lean)",
            "deep-snapshot harness harness/effects_h.py wrapping every public method of the editor / io / transcoder layers (coverage = the driven histories)",
        ],
    },
    "C14": {
        "targets": ["RichchkModel.Props.C14"],
        "harness": "alloc_h",
        "theorems_file": "RichchkModel/Props/C14.lean",
        "namespace": "Richchk.Props.C14",
        "trusted": [
            "set iteration order is modelled as an arbitrary list order (a parameter, universally quantified via List.Perm)",
            "whole-save determinism beyond the allocator (reference rewriting follows the allocation, string collection is an ordered walk) is checked by the cross-process scenario run, not proved",
        ],
    },
    "C02": {
        "targets": ["RichchkModel.Props.C02"],
        "harness": "rich_h",
        "theorems_file": "RichchkModel/Props/C02.lean",
        "namespace": "Richchk.Props.C02",
        "trusted": [
            "hand model Model/Rich.lean + Model/RichEnc.lean of the rich layer (string lookup by last id, MRGN/UPRP/UPUS/SWNM/WAV rebuilders, UNIS/UNIx, trigger entry tables driven by the generated transcoder table), tied by byte-comparing `cycle` with the real code on every generated map and the fixtures",
            "independent reader harness/refchk.py driven by the hand-transcribed specification tables (Spec/*.lean via specdump) as the oracle for what the game reads",
            "partial: the whole-cycle statement is not proved; the proved lemmas are listed, the cycle is validated by the correspondence run",
        ],
    },
    "C03": {
        "targets": ["RichchkModel.Props.C03"],
        "harness": "rich_h",
        "theorems_file": "RichchkModel/Props/C03.lean",
        "namespace": "Richchk.Props.C03",
        "trusted": [
            "hand model Model/Rich.lean + Model/RichEnc.lean of the rich layer (string lookup by last id, MRGN/UPRP/UPUS/SWNM/WAV rebuilders, UNIS/UNIx, trigger entry tables driven by the generated transcoder table), tied by byte-comparing `cycle` with the real code on every generated map and the fixtures",
            "independent reader harness/refchk.py driven by the hand-transcribed specification tables (Spec/*.lean via specdump) as the oracle for what the game reads",
            "partial: the whole-cycle statement is not proved; the proved lemmas are listed, the cycle is validated by the correspondence run",
        ],
    },
    "C10": {
        "targets": ["RichchkModel.Props.C10"],
        "harness": "rich_h",
        "theorems_file": "RichchkModel/Props/C10.lean",
        "namespace": "Richchk.Props.C10",
        "trusted": [
            "hand model Model/Rich.lean + Model/RichEnc.lean of the rich layer (string lookup by last id, MRGN/UPRP/UPUS/SWNM/WAV rebuilders, UNIS/UNIx, trigger entry tables driven by the generated transcoder table), tied by byte-comparing `cycle` with the real code on every generated map and the fixtures",
            "independent reader harness/refchk.py driven by the hand-transcribed specification tables (Spec/*.lean via specdump) as the oracle for what the game reads",
            "partial: the whole-cycle statement is not proved; the proved lemmas are listed, the cycle is validated by the correspondence run",
        ],
    },
    "C11": {
        "targets": ["RichchkModel.Props.C11"],
        "harness": "rich_h",
        "theorems_file": "RichchkModel/Props/C11.lean",
        "namespace": "Richchk.Props.C11",
        "trusted": [
            "hand model Model/Rich.lean + Model/RichEnc.lean of the rich layer (string lookup by last id, MRGN/UPRP/UPUS/SWNM/WAV rebuilders, UNIS/UNIx, trigger entry tables driven by the generated transcoder table), tied by byte-comparing `cycle` with the real code on every generated map and the fixtures",
            "independent reader harness/refchk.py driven by the hand-transcribed specification tables (Spec/*.lean via specdump) as the oracle for what the game reads",
            "partial: the whole-cycle statement is not proved; the proved lemmas are listed, the cycle is validated by the correspondence run",
        ],
    },
    "C12": {
        "targets": ["RichchkModel.Props.C12"],
        "harness": "codecs_h",
        "theorems_file": "RichchkModel/Props/C12.lean",
        "namespace": "Richchk.Props.C12",
        "trusted": [
            "Spec/Flags.lean: hand transcription of the flag bits the specification defines",
            "Decimal arithmetic is exact on the domain (<= 18 significant digits, 28-digit context); strict UTF-8 decode followed by encode is the identity",
            "hand model Model/Codecs.lean (bit-string formatting/indexing as bit arithmetic, enum id map with later-wins, AI tag packing, hit-point fraction), tied by exhaustive correspondence runs",
        ],
    },
    "C15": {
        "targets": ["RichchkModel.Props.C15"],
        "harness": "fileops_h",
        "theorems_file": "RichchkModel/Props/C15.lean",
        "namespace": "Richchk.Props.C15",
        "trusted": ["abstract file system (path -> content); Spec/FileApis.lean = the call sequences the model was written against; real file system and StormLib exercised by the harness (partial: real FS)"],
    },
    "C16": {
        "targets": ["RichchkModel.Props.C16"],
        "harness": "fileops_h",
        "theorems_file": "RichchkModel/Props/C16.lean",
        "namespace": "Richchk.Props.C16",
        "trusted": [
            "StormLib's observable behaviour as hypothesised in Model/FileOps.lean (an archive call on the temp copy changes only that file; open/search/extract/close do not modify an archive); os.replace is atomic",
            "not modelled: a failing os.remove during cleanup, a close() that fails after creating an empty temp file, leaked archive handles, power loss between write and fsync",
        ],
    },
    "C17": {
        "targets": ["RichchkModel.Props.C17"],
        "harness": "fileops_h",
        "theorems_file": "RichchkModel/Props/C17.lean",
        "namespace": "Richchk.Props.C17",
        "trusted": ["StormLib as a member map (put replaces one member; compact/close keep members) — hypothesis, validated on the real library; mutagen's OGG length; the wave module's frame count and rate"],
    },
    "C18": {
        "targets": ["RichchkModel.Props.C18"],
        "harness": "imports_h",
        "theorems_file": "RichchkModel/Props/C18.lean",
        "namespace": "Richchk.Props.C18",
        "trusted": [
            "hand model Model/Imports.lean of CPython's import execution (sys.modules entry before the body runs, depth first, from-import of an undefined name from a partially initialised module raises); pkgutil.iter_modules order = sorted file names",
            "the translator's reading of top-level imports, class-definition registrations and import_all_modules_in_subpackage calls (function-level and TYPE_CHECKING imports are not executed at import time)",
        ],
    },
    "C19": {
        "targets": ["RichchkModel.Props.C19"],
        "harness": "bytelayer",
        "theorems_file": "RichchkModel/Props/C19.lean",
        "namespace": "Richchk.Props.C19",
        "trusted": ["CPython's own termination (the model proves termination of the modelled loops; the harness runs each decode under a wall-clock limit)"],
    },
}


# --------------------------------------------------------------------------- helpers
def sh(cmd, cwd=None, timeout=3600, env=None):
    p = subprocess.run(cmd, cwd=cwd, stdout=subprocess.PIPE, stderr=subprocess.STDOUT, timeout=timeout, env=env)
    return p.returncode, p.stdout.decode(errors="replace")


class Lock:
    def __enter__(self):
        os.makedirs(BUILD, exist_ok=True)
        self.f = open(os.path.join(BUILD, ".lock"), "w")
        fcntl.flock(self.f, fcntl.LOCK_EX)
        return self

    def __exit__(self, *a):
        fcntl.flock(self.f, fcntl.LOCK_UN)
        self.f.close()


def write_if_changed(path, text):
    os.makedirs(os.path.dirname(path), exist_ok=True)
    try:
        if open(path).read() == text:
            return False
    except FileNotFoundError:
        pass
    with open(path, "w") as f:
        f.write(text)
    return True


def regenerate():
    """run every translator on /repo's current working tree; returns (gaps, summary)"""
    import importlib

    gaps = []
    summary = {}
    os.makedirs(BUILD, exist_ok=True)
    import layouts

    importlib.reload(layouts)
    res, g = layouts.translate_all()
    write_if_changed(os.path.join(GEN, "Layouts.lean"), layouts.emit_lean(res, g))
    with open(os.path.join(BUILD, "layouts.json"), "w") as f:
        json.dump({"results": res, "gaps": g}, f, default=str)
    gaps += [("layouts",) + tuple(x) for x in g]
    summary["layouts"] = {"sections": len(res), "gaps": len(g)}
    for modname in EXTRA_TRANSLATORS:
        try:
            mod = importlib.import_module(modname)
            importlib.reload(mod)
            g2, s2 = mod.generate(GEN, BUILD, write_if_changed)
            gaps += [(modname,) + tuple(x) for x in g2]
            summary[modname] = s2
        except Exception as e:  # a crash of a translator is a gap, never a guess
            gaps.append((modname, "translator crashed", "%s: %s" % (type(e).__name__, e)))
    return gaps, summary


ALL_TRANSLATORS = ["layouts", "tr_codecs", "tr_trig", "tr_consts", "tr_imports", "tr_fileapis", "tr_effects"]
_RICH = ["layouts", "tr_codecs", "tr_trig", "tr_consts"]      # everything the rich-layer configuration is assembled from
TRANSLATORS_OF = {
    "C01": ["layouts"], "C06": ["layouts"], "C19": ["layouts"],
    "C05": ["tr_trig", "layouts"], "C12": ["tr_codecs"], "C08": [],
    "C09": ["tr_consts"], "C14": ["tr_consts"],
    "C02": _RICH, "C03": _RICH, "C10": _RICH, "C11": _RICH, "C04": _RICH, "C07": _RICH,
    "C13": ["tr_effects"], "C15": ["tr_fileapis"], "C16": ["tr_fileapis"], "C17": ["tr_fileapis"], "C18": ["tr_imports"],
}
EXTRA_TRANSLATORS = ["tr_codecs", "tr_trig", "tr_consts", "tr_imports", "tr_fileapis", "tr_effects"]  # each module exposes generate(gen_dir, build_dir, write_if_changed)


def lake_build(targets, timeout=3000):
    rc, out = sh(["lake", "build"] + targets, cwd=LEAN, timeout=timeout)
    return rc == 0, out


def theorem_names(path):
    names = []
    src = open(os.path.join(LEAN, path)).read()
    # strip block comments
    src_nc = re.sub(r"/-.*?-/", "", src, flags=re.S)
    for m in re.finditer(r"^theorem\s+([A-Za-z0-9_'.]+)", src_nc, flags=re.M):
        names.append(m.group(1))
    return names, src_nc


def audit(prop):
    """#print axioms for every property theorem + forbidden-token grep over the project"""
    cfg = PROPS[prop]
    names, _ = theorem_names(cfg["theorems_file"])
    mod = cfg["theorems_file"][:-5].replace("/", ".")
    lines = ["import " + mod]
    for n in names:
        lines.append("#print axioms %s.%s" % (cfg["namespace"], n))
    os.makedirs(BUILD, exist_ok=True)
    f = os.path.join(BUILD, "audit_%s.lean" % prop)
    open(f, "w").write("\n".join(lines) + "\n")
    rc, out = sh(["lake", "env", "lean", f], cwd=LEAN, timeout=1200)
    results = {}
    problems = []
    if rc != 0:
        problems.append("audit file failed to elaborate: " + out[-400:])
    flat = re.sub(r"\s+", " ", out)
    for n in names:
        full = "%s.%s" % (cfg["namespace"], n)
        m = re.search(r"'%s' depends on axioms: \[([^\]]*)\]" % re.escape(full), flat)
        if m:
            axs = {a.strip() for a in m.group(1).split(",") if a.strip()}
            results[n] = sorted(axs)
            bad = axs - ALLOWED_AXIOMS
            if bad:
                problems.append("%s uses axioms %s" % (n, sorted(bad)))
        elif re.search(r"'%s' does not depend on any axioms" % re.escape(full), flat):
            results[n] = []
        else:
            problems.append("no axiom report for " + n)
    # forbidden tokens (outside comments) in every hand-written or generated Lean file
    for root, _, files in os.walk(os.path.join(LEAN, "RichchkModel")):
        for fn in files:
            if fn.endswith(".lean"):
                src = open(os.path.join(root, fn)).read()
                src = re.sub(r"/-.*?-/", "", src, flags=re.S)
                src = re.sub(r"--.*", "", src)
                for ln in src.split("\n"):
                    if FORBIDDEN.search(ln):
                        problems.append("forbidden token in %s: %s" % (fn, ln.strip()[:80]))
    return names, results, problems


def known_findings(prop):
    known, fixed = [], []
    p = os.path.join(VERIF, "known_findings.txt")
    if os.path.exists(p):
        for ln in open(p):
            ln = ln.strip()
            if ln.startswith("known: property=%s " % prop):
                m = re.match(r"known: property=\S+ key=(\S+) (.*)", ln)
                if m:
                    known.append((m.group(1), m.group(2)))
            elif ln.startswith("fixed: property=%s " % prop):
                fixed.append(ln)
    return known, fixed


def run_harness(prop, tier, seed, replay=None):
    outp = os.path.join(BUILD, "harness_%s_%s_%d.json" % (prop, tier, os.getpid()))
    cmd = [VENV_PY, os.path.join(VERIF, "harness", "run.py"), prop, tier, str(seed), outp]
    if replay:
        cmd += ["--replay", replay]
    env = dict(os.environ)
    env["PYTHONPATH"] = os.path.join(os.environ.get("RICHCHK_REPO", "/repo"), "src")
    env.pop("PYTHONHASHSEED", None)
    rc, out = sh(cmd, cwd=VERIF, timeout=7200, env=env)
    try:
        res = json.load(open(outp))
        os.remove(outp)
    except Exception:
        res = None
    return rc, out, res


def write_evidence(prop, tier, seed, cov, violations, wall, assumptions):
    os.makedirs(EVID, exist_ok=True)
    ev = {
        "property_id": prop,
        "tier": tier,
        "seed": seed,
        "level": "proof",
        "coverage": cov,
        "assumptions": assumptions,
        "wall_s": round(wall, 2),
        "violations": violations,
    }
    with open(os.path.join(EVID, prop + ".json"), "w") as f:
        json.dump(ev, f, indent=1, default=str)


def save_replay(prop, payload):
    os.makedirs(REPLAYS, exist_ok=True)
    blob = json.dumps(payload, sort_keys=True, default=str)
    h = hashlib.sha256(blob.encode()).hexdigest()[:12]
    path = os.path.join(REPLAYS, "%s-%s.json" % (prop, h))
    with open(path, "w") as f:
        f.write(json.dumps(payload, indent=1, sort_keys=True, default=str))
    return path


# --------------------------------------------------------------------------- main check
def check(prop, tier, seed):
    t0 = time.time()
    cfg = PROPS[prop]
    broken = []  # things that no longer check (not by themselves violations)
    with Lock():
        gaps, gen_summary = regenerate()
        # only the translators this property's model is generated by matter: a construct another translator
        # does not understand is that other property's business
        gaps = [g for g in gaps if g[0] in TRANSLATORS_OF.get(prop, ALL_TRANSLATORS)]
        if gaps:
            broken.append({"stage": "translate", "what": "TranslatorGap", "detail": [list(map(str, g)) for g in gaps][:10]})
        lake_build(["specdump"])
        ok_drv, log_drv = lake_build(["driver"])
        if not ok_drv:
            broken.append({"stage": "build", "what": "model driver does not build", "detail": tail_errors(log_drv)})
        ok, log = lake_build(cfg["targets"])
        if not ok:
            broken.append({"stage": "prove", "what": "lake build %s failed" % " ".join(cfg["targets"]), "detail": tail_errors(log)})
        names, ax, problems = ([], {}, [])
        if ok:
            names, ax, problems = audit(prop)
            if problems:
                broken.append({"stage": "audit", "what": "axiom / token audit", "detail": problems[:10]})
        else:
            names, _ = theorem_names(cfg["theorems_file"])
        if ok and tier == "thorough":
            rc, out = sh(["lake", "env", "leanchecker"] + cfg["targets"], cwd=LEAN, timeout=3000)
            if rc != 0:
                broken.append({"stage": "leanchecker", "what": "independent re-check failed", "detail": out[-600:]})
    # correspondence + oracle on the real code
    rc, hout, res = run_harness(prop, tier, seed)
    if res is None:
        broken.append({"stage": "correspond", "what": "harness crashed", "detail": hout[-1500:]})
        res = {"evaluations": 0, "distinct": 0, "samples": [], "dist": {}, "disagreements": [], "violations": [], "known_hits": [], "notes": [], "rule": ""}
    if res["disagreements"]:
        broken.append({"stage": "correspond", "what": "model and implementation disagree on %d case(s)" % len(res["disagreements"]), "detail": res["disagreements"][:3]})
    known, fixed = known_findings(prop)
    known_keys = {k for k, _ in known}
    # harness: "violations" = oracle failures without a finding key; "known_samples" = one sample per finding key hit.
    # A key that known_findings.txt does not list FOR THIS PROPERTY is an ordinary violation.
    unlisted = [v for v in res["violations"] if v.get("key") not in known_keys] + [v for v in res.get("known_samples", []) if v.get("key") not in known_keys]
    listed_hit = {v.get("key") for v in res["violations"] + res.get("known_samples", []) if v.get("key") in known_keys}

    discharged = len([n for n in names if n in ax]) if ok else 0
    cov = {
        "obligations": len(names),
        "discharged": discharged,
        "checker_cmd": "cd /verif/lean && lake build %s && lake env lean ../build/audit_%s.lean  (#print axioms per theorem)" % (" ".join(cfg["targets"]), prop),
        "trusted_base": TRUSTED_COMMON + cfg["trusted"],
        "theorems": {n: ax.get(n) for n in names},
        "generated": gen_summary,
        "evaluations": res["evaluations"],
        "distinct_nontrivial": res["distinct"],
        "rule": res.get("rule", ""),
        "samples": res["samples"] or [{"note": "no harness cases"}],
        "input_distribution": res["dist"],
        "model_vs_impl_disagreements": len(res["disagreements"]),
        "oracle_violations": len(res["violations"]),
        "known_findings_hit": sorted(listed_hit),
        "broken_stages": [b["stage"] + ": " + b["what"] for b in broken],
        "notes": res.get("notes", []),
    }
    for key, text in known:
        if key in listed_hit:
            print("KNOWN-FINDING: property=%s %s" % (prop, text))
    status = 0
    if unlisted:
        v = unlisted[0]
        path = save_replay(prop, {"property": prop, "kind": "failing-input", "violation": v, "broken": broken, "seed": seed, "tier": tier})
        print("VIOLATION property=%s replay=%s" % (prop, path))
        status = 1
    elif broken:
        path = save_replay(prop, {"property": prop, "kind": "no-longer-checks", "broken": broken, "seed": seed, "tier": tier,
                                  "note": "a proof obligation / translation / correspondence no longer checks; the oracle found no failing input on the real code"})
        print("VIOLATION property=%s replay=%s no-failing-input-found" % (prop, path))
        status = 1
    write_evidence(prop, tier, seed, cov, len(unlisted) + (1 if broken and not unlisted else 0), time.time() - t0,
                   ["see coverage.trusted_base"] + ["fixed: " + f for f in fixed][:0])
    if status == 0:
        print("OK property=%s tier=%s theorems=%d/%d cases=%d distinct=%d wall=%.1fs" % (prop, tier, discharged, len(names), res["evaluations"], res["distinct"], time.time() - t0))
    return status


def tail_errors(log):
    errs = [ln for ln in log.split("\n") if "error" in ln.lower()]
    return errs[:12] if errs else log[-800:].split("\n")


def setup():
    t0 = time.time()
    with Lock():
        gaps, _ = regenerate()
        if gaps:
            print("setup: translator gaps:", gaps[:5])
        targets = ["RichchkModel", "driver", "specdump"] + sorted({t for c in PROPS.values() for t in c["targets"]})
        ok, log = lake_build(targets)
        if not ok:
            print(log[-3000:])
            print("setup: lake build failed")
            return 1
    print("setup ok in %.1fs" % (time.time() - t0))
    return 0


def replay(prop, path):
    seed = 0
    rc, hout, res = run_harness(prop, "quick", seed, replay=path)
    if res is None:
        print(hout[-2000:])
        return 2
    if res["violations"]:
        print("VIOLATION property=%s replay=%s" % (prop, path))
        print(json.dumps(res["violations"][0], indent=1)[:2000])
        return 1
    print("replay: no violation reproduced")
    return 0


def main():
    ap = argparse.ArgumentParser()
    ap.add_argument("prop", nargs="?")
    ap.add_argument("--setup", action="store_true")
    ap.add_argument("--tier", default=os.environ.get("VERIF_TIER", "quick"))
    ap.add_argument("--replay")
    a = ap.parse_args()
    if a.setup:
        sys.exit(setup())
    if a.prop not in PROPS:
        print("unknown property", a.prop)
        sys.exit(2)
    try:
        seed = int(os.environ.get("VERIF_SEED", "0"))
    except ValueError:
        seed = 0
    if a.replay:
        sys.exit(replay(a.prop, a.replay))
    try:
        sys.exit(check(a.prop, a.tier, seed))
    except subprocess.TimeoutExpired as e:
        print("timeout:", e)
        sys.exit(2)


if __name__ == "__main__":
    main()
