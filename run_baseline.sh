#!/bin/bash
# runs the repo's pinned baseline (guard off) and prints pass count
cd /repo && env -u RICHCHK_VERIF /venv/bin/python -m pytest -ra -q -p no:cacheprovider --timeout=900 --continue-on-collection-errors "$@" 2>&1 | tail -4
